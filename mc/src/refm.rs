//! Boring reference models: plain vectors and naive loops.
use std::collections::BTreeMap;

/// Reference for a sequence over an ordered alphabet.
pub struct RefSeq<T> {
    pub seq: Vec<T>,
    pub occ: BTreeMap<T, Vec<usize>>,
}

impl<T: Copy + Ord> RefSeq<T> {
    pub fn new(seq: &[T]) -> Self {
        let mut occ: BTreeMap<T, Vec<usize>> = BTreeMap::new();
        for (i, &s) in seq.iter().enumerate() {
            occ.entry(s).or_default().push(i);
        }
        RefSeq { seq: seq.to_vec(), occ }
    }
    pub fn len(&self) -> usize {
        self.seq.len()
    }
    pub fn max(&self) -> Option<T> {
        self.occ.keys().next_back().copied()
    }
    pub fn count(&self, c: T) -> usize {
        self.occ.get(&c).map_or(0, |v| v.len())
    }
    /// occurrences of c in seq[0..i) (i may exceed len: clipped)
    pub fn rank(&self, c: T, i: usize) -> usize {
        self.occ.get(&c).map_or(0, |v| v.partition_point(|&p| p < i))
    }
    pub fn select(&self, c: T, k: usize) -> Option<usize> {
        self.occ.get(&c).and_then(|v| v.get(k).copied())
    }
    pub fn symbols(&self) -> Vec<T> {
        self.occ.keys().copied().collect()
    }
}

/// Reference for a bit vector.
pub struct RefBits {
    pub bits: Vec<bool>,
    pub ones: Vec<usize>,
    pub zeros: Vec<usize>,
}

impl RefBits {
    pub fn new(bits: &[bool]) -> Self {
        let mut ones = Vec::new();
        let mut zeros = Vec::new();
        for (i, &b) in bits.iter().enumerate() {
            if b {
                ones.push(i)
            } else {
                zeros.push(i)
            }
        }
        RefBits { bits: bits.to_vec(), ones, zeros }
    }
    pub fn len(&self) -> usize {
        self.bits.len()
    }
    pub fn rank1(&self, i: usize) -> usize {
        self.ones.partition_point(|&p| p < i)
    }
    pub fn select1(&self, k: usize) -> Option<usize> {
        self.ones.get(k).copied()
    }
    pub fn select0(&self, k: usize) -> Option<usize> {
        self.zeros.get(k).copied()
    }
    /// `len` bits starting at `start`, least significant first
    pub fn get_bits(&self, start: usize, len: usize) -> u64 {
        let mut r = 0u64;
        for j in 0..len {
            if self.bits[start + j] {
                r |= 1 << j;
            }
        }
        r
    }
    /// 64-bit word `w` with zero padding after the last bit
    pub fn word(&self, w: usize) -> u64 {
        let mut r = 0u64;
        for j in 0..64 {
            let p = w * 64 + j;
            if p < self.bits.len() && self.bits[p] {
                r |= 1 << j;
            }
        }
        r
    }
}

/// Bit length of v (0 for 0).
pub fn bitlen(v: u128) -> u32 {
    128 - v.leading_zeros()
}
