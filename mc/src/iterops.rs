//! Iterator methods that an implementation may override (nth, fold, try_fold, count, last, nth_back,
//! rfold, try_rfold, size_hint, len) and the std adaptors built on them, applied to a *concrete*
//! iterator type after a prefix of next()/next_back() calls. (Through `dyn Iterator`, `&mut I` or
//! `Box<dyn ..>` only next/nth/size_hint/last reach the implementation: the callers instantiate these
//! functions with the real iterator types.) `expect` is the reference: the same operation on a slice.
use serde::{Deserialize, Serialize};

#[derive(Debug, Clone, Copy, PartialEq, Serialize, Deserialize)]
pub enum IterOp {
    Count,
    Last,
    Fold,
    Max,
    Eq,
    /// find() that stops at the j-th remaining element, then next()
    Find(usize),
    /// find() that never matches, then next()
    FindNone,
    Position(usize),
    All,
    Nth(usize),
    Skip(usize),
    StepBy(usize),
    // double-ended
    RFold,
    RFind(usize),
    NthBack(usize),
    RevNth(usize),
    RPosition(usize),
}

/// What one operation showed: yielded items (None = the iterator said None) and numbers (counts, lengths).
#[derive(Debug, Clone, PartialEq, Hash)]
pub struct Out<T> {
    pub items: Vec<Option<T>>,
    pub nums: Vec<usize>,
}

impl<T: std::fmt::Debug> Out<T> {
    pub fn show(&self) -> String {
        let it: Vec<String> = self.items.iter().take(6).map(|x| format!("{x:?}")).collect();
        format!("items[{}]=[{}{}] nums={:?}", self.items.len(), it.join(", "), if self.items.len() > 6 { ", .." } else { "" }, self.nums)
    }
    pub fn first_difference(&self, o: &Self) -> String {
        if self.items.len() != o.items.len() {
            return format!("{} items instead of {}", self.items.len(), o.items.len());
        }
        if let Some(j) = (0..self.items.len()).find(|&j| format!("{:?}", self.items[j]) != format!("{:?}", o.items[j])) {
            return format!("item {j}: {:?} instead of {:?}", self.items[j], o.items[j]);
        }
        format!("numbers {:?} instead of {:?}", self.nums, o.nums)
    }
}

pub const FWD_OPS_SMALL: [IterOp; 16] = [
    IterOp::Count,
    IterOp::Last,
    IterOp::Fold,
    IterOp::Max,
    IterOp::Eq,
    IterOp::Find(0),
    IterOp::Find(1),
    IterOp::Find(2),
    IterOp::FindNone,
    IterOp::Position(1),
    IterOp::All,
    IterOp::Nth(0),
    IterOp::Nth(1),
    IterOp::Nth(usize::MAX),
    IterOp::Skip(1),
    IterOp::StepBy(2),
];
pub const DE_OPS_SMALL: [IterOp; 9] = [
    IterOp::RFold,
    IterOp::RFind(0),
    IterOp::RFind(1),
    IterOp::NthBack(0),
    IterOp::NthBack(1),
    IterOp::NthBack(usize::MAX),
    IterOp::RevNth(1),
    IterOp::RPosition(0),
    IterOp::RPosition(1),
];

pub fn fwd_ops_long() -> Vec<IterOp> {
    let mut v = vec![IterOp::Count, IterOp::Last, IterOp::Fold, IterOp::Max, IterOp::Eq, IterOp::FindNone, IterOp::All];
    for k in [0usize, 1, 62, 63, 64, 65, 127, 128, 200, 255, 256, 257, 511, 512, 513, usize::MAX - 1, usize::MAX] {
        v.push(IterOp::Nth(k));
        if k < 600 {
            v.push(IterOp::Find(k));
        }
    }
    for k in [63usize, 64, 256, 300] {
        v.push(IterOp::Position(k));
        v.push(IterOp::Skip(k));
        v.push(IterOp::StepBy(k));
    }
    v
}

pub fn de_ops_long() -> Vec<IterOp> {
    let mut v = vec![IterOp::RFold];
    for k in [0usize, 1, 63, 64, 65, 128, 200, 256, usize::MAX] {
        v.push(IterOp::NthBack(k));
        v.push(IterOp::RevNth(k));
        if k < 600 {
            v.push(IterOp::RFind(k));
            v.push(IterOp::RPosition(k));
        }
    }
    v
}

/// The reference: `rest` is what the iterator still has to yield (front to back).
pub fn expect<T: Copy + Ord>(rest: &[T], op: IterOp, exact: bool) -> Out<T> {
    let n = rest.len();
    let g = |j: usize| rest.get(j).copied();
    let mut items = vec![];
    let mut nums = vec![];
    // (consumed from the front, consumed from the back) after the operation, where the iterator survives
    let mut after: Option<(usize, usize)> = None;
    match op {
        IterOp::Count => nums.push(n),
        IterOp::Last => items.push(rest.last().copied()),
        IterOp::Fold => items.extend(rest.iter().map(|&x| Some(x))),
        IterOp::Max => items.push(rest.iter().copied().max()),
        IterOp::Eq => nums.push(1),
        IterOp::Find(j) => {
            items.push(g(j));
            after = Some(((j + 1).min(n), 0));
        }
        IterOp::FindNone => {
            items.push(None);
            after = Some((n, 0));
        }
        IterOp::Position(j) => {
            nums.push(if j < n { j } else { usize::MAX });
            after = Some(((j + 1).min(n), 0));
        }
        IterOp::All => {
            nums.push(1);
            after = Some((n, 0));
        }
        IterOp::Nth(k) => {
            items.push(g(k));
            after = Some((k.saturating_add(1).min(n), 0));
        }
        IterOp::Skip(k) => {
            items.push(g(k));
            items.push(g(k + 1));
        }
        IterOp::StepBy(s) => {
            for j in 0..4 {
                items.push(g(j * s));
            }
        }
        IterOp::RFold => items.extend(rest.iter().rev().map(|&x| Some(x))),
        IterOp::RFind(j) => {
            items.push(if j < n { g(n - 1 - j) } else { None });
            after = Some((0, (j + 1).min(n)));
        }
        IterOp::NthBack(k) => {
            items.push(if k < n { g(n - 1 - k) } else { None });
            after = Some((0, k.saturating_add(1).min(n)));
        }
        IterOp::RevNth(k) => {
            items.push(if k < n { g(n - 1 - k) } else { None });
            items.push(if k.saturating_add(1) < n { g(n - 2 - k) } else { None });
        }
        IterOp::RPosition(j) => {
            // rposition(|x| ..) searches from the back and reports the index from the front
            nums.push(if j < n { n - 1 - j } else { usize::MAX });
            after = Some((0, (j + 1).min(n)));
        }
    }
    if let Some((f, b)) = after {
        let left = &rest[f.min(n)..n - b.min(n - f.min(n))];
        if exact {
            nums.push(left.len());
        }
        items.push(left.first().copied());
        if exact {
            nums.push(left.len().saturating_sub(1));
        }
    }
    Out { items, nums }
}

fn after_fwd<T, I: Iterator<Item = T>>(it: &mut I, len_of: Option<fn(&I) -> usize>, out: &mut Out<T>) {
    if let Some(l) = len_of {
        out.nums.push(l(it));
    }
    out.items.push(it.next());
    if let Some(l) = len_of {
        out.nums.push(l(it));
    }
}

/// Forward operations on an iterator that has already been advanced by the caller.
/// `rest` is only used by Eq (the comparison partner).
pub fn apply_fwd<T: Copy + Ord, I: Iterator<Item = T>>(mut it: I, rest: &[T], op: IterOp, len_of: Option<fn(&I) -> usize>) -> Out<T> {
    let mut out = Out { items: vec![], nums: vec![] };
    match op {
        IterOp::Count => out.nums.push(it.count()),
        IterOp::Last => out.items.push(it.last()),
        IterOp::Fold => {
            out.items = it.fold(Vec::new(), |mut v, x| {
                v.push(Some(x));
                v
            })
        }
        IterOp::Max => out.items.push(it.max()),
        IterOp::Eq => out.nums.push(it.eq(rest.iter().copied()) as usize),
        IterOp::Find(j) => {
            let mut c = 0usize;
            let r = it.find(|_| {
                c += 1;
                c > j
            });
            out.items.push(r);
            after_fwd(&mut it, len_of, &mut out);
        }
        IterOp::FindNone => {
            let r = it.find(|_| false);
            out.items.push(r);
            after_fwd(&mut it, len_of, &mut out);
        }
        IterOp::Position(j) => {
            let mut c = 0usize;
            let r = it.position(|_| {
                c += 1;
                c > j
            });
            out.nums.push(r.unwrap_or(usize::MAX));
            after_fwd(&mut it, len_of, &mut out);
        }
        IterOp::All => {
            out.nums.push(it.all(|_| true) as usize);
            after_fwd(&mut it, len_of, &mut out);
        }
        IterOp::Nth(k) => {
            let r = it.nth(k);
            out.items.push(r);
            after_fwd(&mut it, len_of, &mut out);
        }
        IterOp::Skip(k) => {
            let mut s = it.skip(k);
            out.items.push(s.next());
            out.items.push(s.next());
        }
        IterOp::StepBy(s) => {
            let mut st = it.step_by(s.max(1));
            for _ in 0..4 {
                out.items.push(st.next());
            }
        }
        _ => panic!("not a forward operation: {op:?}"),
    }
    out
}

/// Double-ended operations (and, through `apply_fwd`, the forward ones) on an exact-size iterator.
pub fn apply_de<T: Copy + Ord, I: DoubleEndedIterator<Item = T> + ExactSizeIterator>(mut it: I, rest: &[T], op: IterOp) -> Out<T> {
    let mut out = Out { items: vec![], nums: vec![] };
    let lenf: fn(&I) -> usize = |i| i.len();
    match op {
        IterOp::RFold => {
            out.items = it.rfold(Vec::new(), |mut v, x| {
                v.push(Some(x));
                v
            })
        }
        IterOp::RFind(j) => {
            let mut c = 0usize;
            let r = it.rfind(|_| {
                c += 1;
                c > j
            });
            out.items.push(r);
            after_fwd(&mut it, Some(lenf), &mut out);
        }
        IterOp::NthBack(k) => {
            let r = it.nth_back(k);
            out.items.push(r);
            after_fwd(&mut it, Some(lenf), &mut out);
        }
        IterOp::RevNth(k) => {
            let mut r = it.rev();
            out.items.push(r.nth(k));
            out.items.push(r.next());
        }
        IterOp::RPosition(j) => {
            let mut c = 0usize;
            let r = it.rposition(|_| {
                c += 1;
                c > j
            });
            out.nums.push(r.unwrap_or(usize::MAX));
            after_fwd(&mut it, Some(lenf), &mut out);
        }
        _ => return apply_fwd(it, rest, op, Some(lenf)),
    }
    out
}

/// Advances by `a` next() calls (and `b` next_back() calls where possible) without observing.
pub fn advance<I: Iterator>(it: &mut I, a: usize) {
    for _ in 0..a {
        it.next();
    }
}
pub fn retreat<I: DoubleEndedIterator>(it: &mut I, b: usize) {
    for _ in 0..b {
        it.next_back();
    }
}

/// One checked operation: `got` runs it on the real iterator, the reference is `expect(rest, op)`.
pub fn check<T: Copy + Ord + std::fmt::Debug>(
    ctx: &mut crate::run::Ctx,
    method: &'static str,
    a: usize,
    b: usize,
    op: IterOp,
    rest: &[T],
    exact: bool,
    got: impl FnOnce() -> Out<T>,
) {
    ctx.evals += 1;
    ctx.add("transitions", 1);
    ctx.add("iterator_operations", 1);
    crate::jrn::set_query(method, a as u128, b as u64, 0);
    let want = expect(rest, op, exact);
    let q = || format!("{method}: {a} next(), {b} next_back(), then {op:?} (and next())");
    match crate::run::trap(got) {
        Ok(g) => {
            if g != want {
                ctx.violation(method, "iterator-op", q(), want.show(), format!("{} ({})", g.show(), g.first_difference(&want)));
            }
        }
        Err(msg) => ctx.violation(method, "iterator-op", q(), want.show(), format!("PANIC: {msg}")),
    }
}

/// An iterator with a chosen (still truthful) size hint: 0 exact, 1 unknown (0, None), 2 an upper bound eight times too
/// large and no lower bound (what `filter` reports), 3 a lower bound of half the length and no upper bound.
pub struct Hinted<I> {
    it: I,
    hint: (usize, Option<usize>),
}

pub fn hinted<T>(v: Vec<T>, kind: u8) -> Hinted<std::vec::IntoIter<T>> {
    let n = v.len();
    let hint = match kind {
        0 => (n, Some(n)),
        1 => (0, None),
        2 => (0, Some(8 * n + 4096)),
        _ => (n / 2, None),
    };
    Hinted { it: v.into_iter(), hint }
}

impl<I: Iterator> Iterator for Hinted<I> {
    type Item = I::Item;
    fn next(&mut self) -> Option<I::Item> {
        let x = self.it.next();
        if x.is_some() {
            self.hint.0 = self.hint.0.saturating_sub(1);
        }
        x
    }
    fn size_hint(&self) -> (usize, Option<usize>) {
        self.hint
    }
}
