//! Explorer runtime shared by all harness binaries: a deterministic list of cases is split over
//! child processes; every child runs its cases under the crash journal and a panic trap,
//! compares every observation with the reference model through `Ctx`, and streams violations and
//! counters to the parent, which merges them into one result file (consumed by /verif/check).
use crate::jrn;
use serde::{de::DeserializeOwned, Deserialize, Serialize};
use serde_json::{json, Value};
use std::collections::{BTreeMap, HashMap, HashSet};
use std::hash::{Hash, Hasher};
use std::io::{BufRead, BufReader, Read, Write};
use std::panic::{catch_unwind, AssertUnwindSafe};
use std::process::{Command, Stdio};
use std::sync::Mutex;

#[derive(Debug, Clone, Serialize, Deserialize)]
pub struct Violation {
    pub property: String,
    pub ty: String,
    pub method: String,
    /// classifier of the arguments / situation (used by the known-findings matcher)
    pub class: String,
    pub query: String,
    pub expected: String,
    pub observed: String,
    pub case_index: u64,
    pub case: Value,
    pub profile: String,
}

impl Violation {
    pub fn key(&self) -> String {
        format!("{}|{}|{}|{}", self.ty, self.method, self.class, obs_kind(&self.observed))
    }
}

/// Coarse kind of an observation (panic message text is kept, numbers are not).
pub fn obs_kind(obs: &str) -> String {
    if obs.starts_with("PANIC") || obs.starts_with("SIG") || obs.starts_with("TIMEOUT") || obs.starts_with("ABORT") {
        let mut s: String = obs.chars().map(|c| if c.is_ascii_digit() { '#' } else { c }).collect();
        while s.contains("##") {
            s = s.replace("##", "#");
        }
        s.truncate(90);
        s
    } else if obs.starts_with("Some") || obs.starts_with("None") {
        obs.split('(').next().unwrap_or("").to_string()
    } else {
        "value".to_string()
    }
}

fn intern(s: &str) -> &'static str {
    static POOL: Mutex<Option<HashSet<&'static str>>> = Mutex::new(None);
    let mut g = POOL.lock().unwrap();
    let set = g.get_or_insert_with(HashSet::new);
    if let Some(x) = set.get(s) {
        return x;
    }
    let l: &'static str = Box::leak(s.to_string().into_boxed_str());
    set.insert(l);
    l
}

thread_local! {
    static LAST_PANIC: std::cell::RefCell<String> = const { std::cell::RefCell::new(String::new()) };
}

pub fn install_panic_hook() {
    std::panic::set_hook(Box::new(|info| {
        let msg = info
            .payload()
            .downcast_ref::<String>()
            .cloned()
            .or_else(|| info.payload().downcast_ref::<&str>().map(|s| s.to_string()))
            .unwrap_or_else(|| "<non-string panic>".to_string());
        let loc = info.location().map(|l| format!(" @{}:{}", l.file().rsplit("/src/").next().unwrap_or(""), l.line())).unwrap_or_default();
        LAST_PANIC.with(|p| *p.borrow_mut() = format!("{msg}{loc}"));
    }));
}

/// Runs `f`, turning a panic into `Err(message)`.
#[inline(always)]
pub fn trap<R>(f: impl FnOnce() -> R) -> Result<R, String> {
    match catch_unwind(AssertUnwindSafe(f)) {
        Ok(r) => Ok(r),
        Err(_) => Err(LAST_PANIC.with(|p| p.borrow().clone())),
    }
}

/// Another value in the same abstract state, obtained the way a user could obtain it: 1 = clone(), 2 = bincode round
/// trip, 3 = clone_from() into `donor` (a value that held something else before).
pub fn derived<V: Clone + serde::Serialize + serde::de::DeserializeOwned>(v: &V, how: u8, donor: impl FnOnce() -> V) -> V {
    match how {
        1 => v.clone(),
        2 => bincode::deserialize(&bincode::serialize(v).unwrap()).unwrap(),
        _ => {
            let mut d = donor();
            d.clone_from(v);
            d
        }
    }
}

/// Class of an observation made on a copy / a later stage of a case: the suffix alone when the case has no class of its
/// own, otherwise the case's class unchanged - the class names the *input* family (e.g. code_bits>32, which the list of
/// known findings is keyed on), and that does not change when the same input is looked at through a copy.
pub fn sub_class(base: &str, suffix: &str) -> String {
    if base.is_empty() {
        suffix.to_string()
    } else {
        base.to_string()
    }
}

pub fn h64<T: Hash>(t: &T) -> u64 {
    let mut h = std::collections::hash_map::DefaultHasher::new();
    t.hash(&mut h);
    h.finish()
}

/// What a property allows as answer.
pub enum Exp<T> {
    Is(T),
    OneOf(T, T),
}

impl<T: PartialEq + std::fmt::Debug> Exp<T> {
    #[inline(always)]
    pub fn accepts(&self, got: &T) -> bool {
        match self {
            Exp::Is(a) => a == got,
            Exp::OneOf(a, b) => a == got || b == got,
        }
    }
    pub fn describe(&self) -> String {
        match self {
            Exp::Is(a) => format!("{a:?}"),
            Exp::OneOf(a, b) => format!("{a:?} or {b:?}"),
        }
    }
}

pub struct Ctx {
    pub property: String,
    pub profile: String,
    pub tier: String,
    pub case_index: u64,
    pub case_desc: Value,
    pub ty: &'static str,
    pub evals: u64,
    pub cases: u64,
    pub nontrivial_cases: u64,
    pub counters: BTreeMap<String, u64>,
    pub maxima: BTreeMap<String, u64>,
    pub viols: Vec<Violation>,
    pub viol_counts: HashMap<String, u64>,
    pub total_viols: u64,
    pub answers: HashSet<u64>,
    pub case_hashes: HashSet<u64>,
    pub samples: Vec<Value>,
    cur_sample: Option<Vec<Value>>,
    pub digests: Vec<(u64, u64)>,
    cur_digest: u64,
    pub want_digest: bool,
    /// differential mode: observations are executed and digested but not compared with `exp`
    pub mute: bool,
}

impl Ctx {
    pub fn new(property: &str, profile: &str, tier: &str) -> Self {
        Ctx {
            property: property.to_string(),
            profile: profile.to_string(),
            tier: tier.to_string(),
            case_index: 0,
            case_desc: Value::Null,
            ty: "",
            evals: 0,
            cases: 0,
            nontrivial_cases: 0,
            counters: BTreeMap::new(),
            maxima: BTreeMap::new(),
            viols: Vec::new(),
            viol_counts: HashMap::new(),
            total_viols: 0,
            answers: HashSet::new(),
            case_hashes: HashSet::new(),
            samples: Vec::new(),
            cur_sample: None,
            digests: Vec::new(),
            cur_digest: 0,
            want_digest: false,
            mute: false,
        }
    }

    pub fn thorough(&self) -> bool {
        self.tier == "thorough"
    }

    pub fn begin_case(&mut self, idx: u64, desc: Value) {
        self.case_index = idx;
        self.case_desc = desc;
        self.cases += 1;
        self.cur_digest = 0;
        jrn::set_case(idx);
        if self.samples.len() < 3 {
            self.cur_sample = Some(Vec::new());
        }
    }

    pub fn end_case(&mut self) {
        if let Some(q) = self.cur_sample.take() {
            if !q.is_empty() {
                self.samples.push(json!({"case": self.case_desc, "type": self.ty, "first_observations": q}));
            }
        }
        if self.want_digest {
            self.digests.push((self.case_index, self.cur_digest));
        }
    }

    pub fn set_ty(&mut self, ty: &str) {
        let t = intern(ty);
        self.ty = t;
        jrn::set_ty(t);
    }

    /// Registers a distinct input (by content hash); `nontrivial` by the rule of the property.
    pub fn note_input<H: Hash>(&mut self, content: &H, nontrivial: bool) {
        if nontrivial && self.case_hashes.insert(h64(&(self.ty, h64(content)))) {
            self.nontrivial_cases += 1;
        }
    }

    pub fn count(&mut self, name: &str) {
        self.add(name, 1);
    }
    pub fn add(&mut self, name: &str, n: u64) {
        *self.counters.entry(name.to_string()).or_insert(0) += n;
    }
    pub fn maxi(&mut self, name: &str, v: u64) {
        let e = self.maxima.entry(name.to_string()).or_insert(0);
        if v > *e {
            *e = v;
        }
    }

    pub fn violation(&mut self, method: &str, class: &str, query: String, expected: String, observed: String) {
        self.total_viols += 1;
        let v = Violation {
            property: self.property.clone(),
            ty: self.ty.to_string(),
            method: method.to_string(),
            class: class.to_string(),
            query,
            expected,
            observed,
            case_index: self.case_index,
            case: self.case_desc.clone(),
            profile: self.profile.clone(),
        };
        let k = v.key();
        let c = self.viol_counts.entry(k).or_insert(0);
        *c += 1;
        if *c <= 2 && self.viols.len() < 400 {
            self.viols.push(v);
        }
    }

    /// One observation: journal, call under the panic trap, compare.
    #[inline(always)]
    pub fn obs<R: PartialEq + std::fmt::Debug + Hash>(
        &mut self,
        method: &'static str,
        class: &str,
        a0: u128,
        a1: u64,
        a2: u64,
        exp: Exp<R>,
        f: impl FnOnce() -> R,
    ) -> Option<R> {
        self.evals += 1;
        jrn::set_query(method, a0, a1, a2);
        match trap(f) {
            Ok(got) => {
                if self.answers.len() < 200_000 || self.want_digest {
                    let h = h64(&(method, &got));
                    if self.answers.len() < 200_000 {
                        self.answers.insert(h);
                    }
                    if self.want_digest {
                        self.cur_digest = self.cur_digest.rotate_left(5) ^ h64(&(method, a0, a1, a2, &got));
                    }
                }
                if let Some(s) = self.cur_sample.as_mut() {
                    if s.len() < 6 {
                        s.push(json!(format!("{}({}) = {:?}", method, fmt_args(method, a0, a1, a2), got)));
                    }
                }
                if !self.mute && !exp.accepts(&got) {
                    self.violation(
                        method,
                        class,
                        format!("{}({})", method, fmt_args(method, a0, a1, a2)),
                        exp.describe(),
                        format!("{got:?}"),
                    );
                }
                Some(got)
            }
            Err(msg) => {
                if self.want_digest {
                    self.cur_digest = self.cur_digest.rotate_left(5) ^ h64(&(method, a0, a1, a2, "PANIC"));
                }
                if self.mute {
                    return None;
                }
                self.violation(
                    method,
                    class,
                    format!("{}({})", method, fmt_args(method, a0, a1, a2)),
                    exp.describe(),
                    format!("PANIC: {msg}"),
                );
                None
            }
        }
    }

    /// Observation of a whole sequence (iterators): compared element-wise, reported compactly.
    pub fn obs_seq<T: PartialEq + std::fmt::Debug + Hash>(
        &mut self,
        method: &'static str,
        class: &str,
        a1: u64,
        want: &[T],
        f: impl FnOnce() -> Vec<T>,
    ) {
        self.evals += 1;
        jrn::set_query(method, 0, a1, 0);
        match trap(f) {
            Ok(got) => {
                if self.want_digest {
                    self.cur_digest = self.cur_digest.rotate_left(5) ^ h64(&(method, a1, &got));
                }
                if self.answers.len() < 200_000 {
                    self.answers.insert(h64(&(method, got.len(), got.first().map(|x| h64(x)))));
                }
                if !self.mute && got.as_slice() != want {
                    let d = want.iter().zip(got.iter()).position(|(a, b)| a != b);
                    let obs = match d {
                        Some(i) => format!("Seq(len {}; first difference at index {}: {:?} instead of {:?})", got.len(), i, got[i], want[i]),
                        None => format!("Seq(len {} instead of {}; common prefix equal; extra/missing tail starts with {:?})", got.len(), want.len(), got.get(want.len()).or(None)),
                    };
                    self.violation(method, class, format!("{}({})", method, fmt_args(method, 0, a1, 0)), format!("sequence of {} elements", want.len()), obs);
                }
            }
            Err(msg) => {
                if self.want_digest {
                    self.cur_digest = self.cur_digest.rotate_left(5) ^ h64(&(method, a1, "PANIC"));
                }
                if !self.mute {
                    self.violation(method, class, format!("{}({})", method, fmt_args(method, 0, a1, 0)), format!("sequence of {} elements", want.len()), format!("PANIC: {msg}"));
                }
            }
        }
    }

    pub fn mix_digest(&mut self, d: u64) {
        self.cur_digest = self.cur_digest.rotate_left(9) ^ d;
    }

    /// Runs `f` in differential mode (nothing is compared with expectations) and returns the digest
    /// of every answer it observed.
    pub fn digest_of(&mut self, f: impl FnOnce(&mut Ctx)) -> u64 {
        let (m, w, d) = (self.mute, self.want_digest, self.cur_digest);
        self.mute = true;
        self.want_digest = true;
        self.cur_digest = 0;
        f(self);
        let out = self.cur_digest;
        self.mute = m;
        self.want_digest = w;
        self.cur_digest = d;
        out
    }

    /// An observation whose only requirement is "returns without panicking".
    #[inline(always)]
    pub fn total<R>(&mut self, method: &'static str, class: &str, a0: u128, a1: u64, a2: u64, f: impl FnOnce() -> R) -> Option<R> {
        self.evals += 1;
        jrn::set_query(method, a0, a1, a2);
        match trap(f) {
            Ok(r) => Some(r),
            Err(msg) => {
                self.violation(
                    method,
                    class,
                    format!("{}({})", method, fmt_args(method, a0, a1, a2)),
                    "a value or None (no panic)".to_string(),
                    format!("PANIC: {msg}"),
                );
                None
            }
        }
    }

    /// Merges a scratch context (used inside model-checker callbacks) into this one; violations are
    /// taken over only when `keep` says so (the others are re-derived by replaying the counterexample).
    pub fn absorb(&mut self, other: &mut Ctx, keep: impl Fn(&Violation) -> bool) {
        self.evals += other.evals;
        for h in other.answers.drain() {
            if self.answers.len() < 200_000 {
                self.answers.insert(h);
            }
        }
        for (k, v) in std::mem::take(&mut other.counters) {
            *self.counters.entry(k).or_insert(0) += v;
        }
        for (k, v) in std::mem::take(&mut other.maxima) {
            self.maxi(&k, v);
        }
        let counts = std::mem::take(&mut other.viol_counts);
        for v in std::mem::take(&mut other.viols) {
            if keep(&v) {
                let k = v.key();
                let c = self.viol_counts.entry(k.clone()).or_insert(0);
                if *c == 0 {
                    *c = counts.get(&k).copied().unwrap_or(1);
                    self.total_viols += *c;
                    if self.viols.len() < 400 {
                        self.viols.push(v);
                    }
                }
            }
        }
        if self.samples.len() < 3 {
            self.samples.append(&mut other.samples);
        }
    }

    pub fn stats_json(&self) -> Value {
        json!({
            "evals": self.evals, "cases": self.cases, "nontrivial_cases": self.nontrivial_cases,
            "counters": self.counters, "maxima": self.maxima, "total_viols": self.total_viols,
            "distinct_answers": self.answers.len(),
        })
    }
}

pub fn fmt_args(_method: &str, a0: u128, a1: u64, a2: u64) -> String {
    fn f(v: u128) -> String {
        if v == u64::MAX as u128 {
            "usize::MAX".into()
        } else if v == (u64::MAX - 1) as u128 {
            "usize::MAX-1".into()
        } else {
            v.to_string()
        }
    }
    format!("{}, {}, {}", f(a0), f(a1 as u128), f(a2 as u128))
}

/// A unit of exploration: serialisable (replay files hold one), deterministic.
pub trait Case: Serialize + DeserializeOwned + Clone + Send + Sync + 'static {
    fn run(&self, ctx: &mut Ctx);
    /// relative cost, used for the watchdog (seconds granted = 20 + weight / 200_000)
    fn weight(&self) -> u64 {
        1
    }
}

pub struct Args {
    pub property: String,
    pub tier: String,
    pub out: Option<String>,
    pub child: Option<(u64, u64, u64)>,
    pub replay: Option<String>,
    pub jobs: u64,
    pub digest: bool,
    pub extra: Vec<String>,
}

pub fn parse_args() -> Args {
    let v: Vec<String> = std::env::args().collect();
    let mut a = Args {
        property: v.get(1).cloned().unwrap_or_default(),
        tier: v.get(2).cloned().unwrap_or_else(|| "quick".into()),
        out: None,
        child: None,
        replay: None,
        jobs: std::env::var("VERIF_JOBS").ok().and_then(|s| s.parse().ok()).unwrap_or(16),
        digest: false,
        extra: Vec::new(),
    };
    let mut i = 3;
    while i < v.len() {
        match v[i].as_str() {
            "--out" => {
                a.out = Some(v[i + 1].clone());
                i += 1
            }
            "--replay" => {
                a.replay = Some(v[i + 1].clone());
                i += 1
            }
            "--jobs" => {
                a.jobs = v[i + 1].parse().unwrap();
                i += 1
            }
            "--digest" => a.digest = true,
            "--child" => {
                a.child = Some((v[i + 1].parse().unwrap(), v[i + 2].parse().unwrap(), v[i + 3].parse().unwrap()));
                i += 3
            }
            x => a.extra.push(x.to_string()),
        }
        i += 1;
    }
    a
}

pub fn profile_name() -> String {
    let dbg = if cfg!(debug_assertions) { "chk" } else { "fast" };
    let pf = if cfg!(feature = "prefetch") { "prefetch" } else { "noprefetch" };
    let asan = if std::env::var("MC_ASAN").is_ok() { "+asan" } else { "" };
    format!("{dbg}+{pf}{asan}")
}

/// Deterministic execution order: heavier cases first (longest-processing-time scheduling), ties by index.
fn exec_order<C: Case>(cases: &[C]) -> Vec<usize> {
    let mut o: Vec<usize> = (0..cases.len()).collect();
    o.sort_by_key(|&i| (std::cmp::Reverse(cases[i].weight()), i));
    o
}

/// Chunks of the execution order handed to the children on demand.
fn chunks<C: Case>(cases: &[C], order: &[usize], n: u64) -> Vec<(usize, usize)> {
    let total: u64 = cases.iter().map(|c| c.weight().max(1)).sum();
    let target = (total / (n.max(1) * 48)).max(1);
    let mut out = Vec::new();
    let mut a = 0;
    let mut acc = 0u64;
    for (j, &i) in order.iter().enumerate() {
        acc += cases[i].weight().max(1);
        if acc >= target || j + 1 - a >= 512 {
            out.push((a, j + 1));
            a = j + 1;
            acc = 0;
        }
    }
    if a < order.len() {
        out.push((a, order.len()));
    }
    out
}

/// Child: reads "a b" ranges (positions in the execution order) from stdin, runs those cases, answers
/// "K a b"; at end of input prints the final statistics.
fn child_main<C: Case>(args: &Args, cases: &[C]) {
    jrn::install();
    install_panic_hook();
    let order = exec_order(cases);
    let mut ctx = Ctx::new(&args.property, &profile_name(), &args.tier);
    ctx.want_digest = args.digest;
    let out = std::io::stdout();
    let mut sent_v = 0usize;
    let mut sent_d = 0usize;
    let mut flush = |ctx: &mut Ctx, done: Option<(usize, usize)>, fin: bool| {
        let mut o = out.lock();
        while sent_v < ctx.viols.len() {
            writeln!(o, "V {}", serde_json::to_string(&ctx.viols[sent_v]).unwrap()).ok();
            sent_v += 1;
        }
        while sent_d < ctx.digests.len() {
            writeln!(o, "D {} {}", ctx.digests[sent_d].0, ctx.digests[sent_d].1).ok();
            sent_d += 1;
        }
        writeln!(o, "S {}", ctx.stats_json()).ok();
        if let Some((a, b)) = done {
            writeln!(o, "K {a} {b}").ok();
        }
        if fin {
            writeln!(o, "X {}", serde_json::to_string(&ctx.samples).unwrap()).ok();
            let mut vc: Vec<(&String, &u64)> = ctx.viol_counts.iter().collect();
            vc.sort();
            writeln!(o, "C {}", serde_json::to_string(&vc).unwrap()).ok();
            writeln!(o, "E").ok();
        }
        o.flush().ok();
    };
    let stdin = std::io::stdin();
    let mut line = String::new();
    loop {
        line.clear();
        if stdin.lock().read_line(&mut line).unwrap_or(0) == 0 {
            break;
        }
        let mut it = line.split_whitespace();
        let (Some(a), Some(b)) = (it.next().and_then(|x| x.parse::<usize>().ok()), it.next().and_then(|x| x.parse::<usize>().ok())) else { continue };
        for j in a..b.min(order.len()) {
            let i = order[j];
            let c = &cases[i];
            // generous: the watchdog exists for hangs, and must not fire on a loaded machine
            let secs = 300 + c.weight() / 20_000;
            jrn::alarm(secs.min(3400) as u32);
            ctx.begin_case(i as u64, serde_json::to_value(c).unwrap());
            // a panic that escapes the per-observation traps (construction, the harness itself)
            if let Err(msg) = trap(|| c.run(&mut ctx)) {
                ctx.violation("<case>", "escaped-panic", "construction or unguarded call".into(), "no panic".into(), format!("PANIC: {msg}"));
            }
            ctx.end_case();
        }
        jrn::alarm(0);
        flush(&mut ctx, Some((a, b)), false);
    }
    flush(&mut ctx, None, true);
}

#[derive(Default)]
struct Merged {
    evals: u64,
    cases: u64,
    nontrivial: u64,
    distinct_answers: u64,
    counters: BTreeMap<String, u64>,
    maxima: BTreeMap<String, u64>,
    total_viols: u64,
    viols: Vec<Violation>,
    viol_counts: BTreeMap<String, u64>,
    samples: Vec<Value>,
    crashes: u64,
    digests: Vec<(u64, u64)>,
    machinery_errors: Vec<String>,
}

fn merge_stats(m: &mut Merged, s: &Value) {
    m.evals += s["evals"].as_u64().unwrap_or(0);
    m.cases += s["cases"].as_u64().unwrap_or(0);
    m.nontrivial += s["nontrivial_cases"].as_u64().unwrap_or(0);
    m.distinct_answers += s["distinct_answers"].as_u64().unwrap_or(0);
    m.total_viols += s["total_viols"].as_u64().unwrap_or(0);
    if let Some(o) = s["counters"].as_object() {
        for (k, v) in o {
            *m.counters.entry(k.clone()).or_insert(0) += v.as_u64().unwrap_or(0);
        }
    }
    if let Some(o) = s["maxima"].as_object() {
        for (k, v) in o {
            let e = m.maxima.entry(k.clone()).or_insert(0);
            *e = (*e).max(v.as_u64().unwrap_or(0));
        }
    }
}

/// Entry point of every harness binary.
pub fn main_with<C: Case>(enumerate: impl Fn(&Args) -> Vec<C>) {
    let args = parse_args();
    if let Some(path) = &args.replay {
        replay_main::<C>(&args, path);
        return;
    }
    let cases = enumerate(&args);
    if let Some(pos) = args.extra.iter().position(|x| x == "--describe") {
        let idx: usize = args.extra[pos + 1].parse().unwrap();
        println!("{}", serde_json::to_string(&cases[idx]).unwrap());
        return;
    }
    if args.child.is_some() {
        child_main(&args, &cases);
        return;
    }
    let t0 = std::time::Instant::now();
    let exe = std::env::current_exe().unwrap();
    let n = args.jobs.max(1).min(cases.len().max(1) as u64);
    let merged = Mutex::new(Merged::default());
    let order = exec_order(&cases);
    let mut work = chunks(&cases, &order, n);
    // VERIF_SEED only rotates the order in which chunks are handed out; it cannot change what is explored
    let rot = std::env::var("VERIF_SEED").ok().and_then(|s| s.parse::<usize>().ok()).unwrap_or(0);
    if !work.is_empty() && rot % 2 == 1 {
        // keep heavy-first, but let odd seeds start from a different chunk among the light tail
        let half = work.len() / 2;
        let shift = rot % (work.len() - half).max(1);
        work[half..].rotate_left(shift);
    }
    work.reverse(); // pop() takes from the end: heaviest first
    let queue = Mutex::new(work);
    std::thread::scope(|sc| {
        for k in 0..n {
            let merged = &merged;
            let exe = &exe;
            let args = &args;
            let cases = &cases;
            let order = &order;
            let queue = &queue;
            sc.spawn(move || {
                let mut restarts = 0;
                let mut pending: Option<(usize, usize)> = None;
                'incarnation: loop {
                    let mut cmd = Command::new(exe);
                    cmd.arg(&args.property).arg(&args.tier);
                    if args.digest {
                        cmd.arg("--digest");
                    }
                    cmd.args(&args.extra);
                    cmd.args(["--child", &k.to_string(), &n.to_string(), "0"]);
                    cmd.stdin(Stdio::piped()).stdout(Stdio::piped()).stderr(Stdio::piped());
                    let mut ch = match cmd.spawn() {
                        Ok(c) => c,
                        Err(e) => {
                            merged.lock().unwrap().machinery_errors.push(format!("spawn: {e}"));
                            return;
                        }
                    };
                    let mut err = ch.stderr.take().unwrap();
                    let errt = std::thread::spawn(move || {
                        // keep only the tail: the library may be chatty on stderr (a stray dbg!)
                        let mut tail: Vec<u8> = Vec::new();
                        let mut buf = [0u8; 65536];
                        loop {
                            match err.read(&mut buf) {
                                Ok(0) | Err(_) => break,
                                Ok(n) => {
                                    tail.extend_from_slice(&buf[..n]);
                                    if tail.len() > 32768 {
                                        let cut = tail.len() - 16384;
                                        tail.drain(..cut);
                                    }
                                }
                            }
                        }
                        String::from_utf8_lossy(&tail).to_string()
                    });
                    let mut stdin = ch.stdin.take();
                    let mut reader = BufReader::new(ch.stdout.take().unwrap());
                    let mut last_stats: Option<Value> = None;
                    let mut finished = false;
                    let mut viols = Vec::new();
                    let mut samples: Vec<Value> = Vec::new();
                    let mut counts: Vec<(String, u64)> = Vec::new();
                    let mut digests = Vec::new();
                    // hand out chunks until the queue is empty, then close stdin and read the final statistics
                    let mut alive = true;
                    while alive {
                        if pending.is_none() {
                            pending = queue.lock().unwrap().pop();
                        }
                        match pending {
                            Some((a, b)) => {
                                let ok = stdin.as_mut().map(|w| writeln!(w, "{a} {b}").and_then(|_| w.flush()).is_ok()).unwrap_or(false);
                                if !ok {
                                    alive = false;
                                }
                            }
                            None => {
                                stdin = None; // EOF: the child prints its final statistics
                            }
                        }
                        let mut line = String::new();
                        loop {
                            line.clear();
                            if reader.read_line(&mut line).unwrap_or(0) == 0 {
                                alive = false;
                                break;
                            }
                            let l = line.trim_end();
                            if let Some(r) = l.strip_prefix("V ") {
                                if let Ok(v) = serde_json::from_str::<Violation>(r) {
                                    viols.push(v);
                                }
                            } else if let Some(r) = l.strip_prefix("S ") {
                                last_stats = serde_json::from_str(r).ok();
                            } else if let Some(r) = l.strip_prefix("X ") {
                                samples = serde_json::from_str(r).unwrap_or_default();
                            } else if let Some(r) = l.strip_prefix("C ") {
                                counts = serde_json::from_str(r).unwrap_or_default();
                            } else if let Some(r) = l.strip_prefix("D ") {
                                let mut it = r.split(' ');
                                if let (Some(a), Some(b)) = (it.next(), it.next()) {
                                    digests.push((a.parse().unwrap_or(0), b.parse().unwrap_or(0)));
                                }
                            } else if l.starts_with("K ") {
                                pending = None;
                                break;
                            } else if l == "E" {
                                finished = true;
                                alive = false;
                                break;
                            }
                        }
                    }
                    drop(stdin);
                    let status = ch.wait();
                    let stderr = errt.join().unwrap_or_default();
                    let mut m = merged.lock().unwrap();
                    if let Some(s) = &last_stats {
                        merge_stats(&mut m, s);
                    }
                    for v in &viols {
                        if counts.is_empty() {
                            *m.viol_counts.entry(v.key()).or_insert(0) += 1;
                        }
                    }
                    for (k2, c) in counts {
                        *m.viol_counts.entry(k2).or_insert(0) += c;
                    }
                    m.viols.extend(viols);
                    m.samples.extend(samples);
                    m.digests.extend(digests);
                    if finished && status.as_ref().map(|s| s.success()).unwrap_or(false) {
                        return;
                    }
                    // abnormal end: attribute to the journalled case
                    match jrn::parse_crash(&stderr) {
                        Some(c) if (c.case as usize) < cases.len() => {
                            m.crashes += 1;
                            let tail: String = stderr.lines().rev().skip(1).take(6).collect::<Vec<_>>().into_iter().rev().collect::<Vec<_>>().join(" | ");
                            let mut tail = tail;
                            tail.truncate(400);
                            let v = Violation {
                                property: args.property.clone(),
                                ty: c.ty.clone(),
                                method: c.method.clone(),
                                class: "crash".into(),
                                query: format!("{}({})", c.method, fmt_args(&c.method, c.a0, c.a1, c.a2)),
                                expected: "a value, None or a documented panic".into(),
                                observed: format!("{} {}", jrn::sig_name(c.sig), tail),
                                case_index: c.case,
                                case: serde_json::to_value(&cases[c.case as usize]).unwrap(),
                                profile: profile_name(),
                            };
                            *m.viol_counts.entry(v.key()).or_insert(0) += 1;
                            m.total_viols += 1;
                            m.viols.push(v);
                            // continue the interrupted chunk after the crashed case
                            if let Some((a, b)) = pending {
                                let pos = (a..b).find(|&j| order[j] == c.case as usize);
                                pending = match pos {
                                    Some(j) if j + 1 < b => Some((j + 1, b)),
                                    _ => None,
                                };
                            }
                        }
                        _ => {
                            let mut tail = stderr;
                            if tail.len() > 600 {
                                tail = tail[tail.len() - 600..].to_string();
                            }
                            m.machinery_errors.push(format!("child {k} ended abnormally ({status:?}) without a journal record: {tail}"));
                            return;
                        }
                    }
                    restarts += 1;
                    if restarts > 40 {
                        m.machinery_errors.push(format!("child {k}: more than 40 crashes, giving up (violations recorded so far are kept)"));
                        return;
                    }
                    continue 'incarnation;
                }
            });
        }
    });
    let mut m = merged.into_inner().unwrap();
    m.viols.sort_by(|a, b| a.case_index.cmp(&b.case_index).then(a.key().cmp(&b.key())));
    m.digests.sort();
    m.samples.truncate(4);
    let res = json!({
        "property": args.property, "tier": args.tier, "profile": profile_name(),
        "n_cases_enumerated": cases.len(), "cases_run": m.cases, "evals": m.evals,
        "nontrivial_cases": m.nontrivial, "distinct_answers_sum": m.distinct_answers,
        "counters": m.counters, "maxima": m.maxima, "total_violations": m.total_viols,
        "violation_counts": m.viol_counts, "violations": m.viols, "samples": m.samples,
        "crashes": m.crashes, "machinery_errors": m.machinery_errors,
        "digests": if args.digest { json!(m.digests) } else { Value::Null },
        "wall_s": t0.elapsed().as_secs_f64(), "jobs": n,
    });
    let text = serde_json::to_string(&res).unwrap();
    match &args.out {
        Some(p) => std::fs::write(p, text).expect("write result"),
        None => println!("{text}"),
    }
    eprintln!(
        "[{} {} {}] cases={} evals={} violations={} crashes={} machinery_errors={} wall={:.1}s",
        args.property,
        args.tier,
        profile_name(),
        m.cases,
        m.evals,
        m.total_viols,
        m.crashes,
        res["machinery_errors"].as_array().map(|a| a.len()).unwrap_or(0),
        t0.elapsed().as_secs_f64()
    );
}

/// `--replay <file>`: file holds a Violation (or {"case":..}); the case is re-run in this process
/// and every violation it produces is printed; exit 1 if any, 0 if none.
fn replay_main<C: Case>(args: &Args, path: &str) {
    jrn::install();
    install_panic_hook();
    let text = std::fs::read_to_string(path).expect("replay file");
    let v: Value = serde_json::from_str(&text).expect("replay json");
    let case: C = serde_json::from_value(v["case"].clone()).expect("case descriptor");
    let mut ctx = Ctx::new(&args.property, &profile_name(), &args.tier);
    ctx.begin_case(v["case_index"].as_u64().unwrap_or(0), v["case"].clone());
    if let Err(msg) = trap(|| case.run(&mut ctx)) {
        ctx.violation("<case>", "escaped-panic", "construction or unguarded call".into(), "no panic".into(), format!("PANIC: {msg}"));
    }
    ctx.end_case();
    let want_key = v.get("ty").map(|_| {
        format!(
            "{}|{}|{}|{}",
            v["ty"].as_str().unwrap_or(""),
            v["method"].as_str().unwrap_or(""),
            v["class"].as_str().unwrap_or(""),
            obs_kind(v["observed"].as_str().unwrap_or(""))
        )
    });
    let mut same = false;
    for x in &ctx.viols {
        println!("REPLAY-VIOLATION {} {} expected {} observed {}", x.ty, x.query, x.expected, x.observed);
        if Some(x.key()) == want_key {
            same = true;
        }
    }
    println!("REPLAY evals={} violations={} same_as_recorded={}", ctx.evals, ctx.total_viols, same);
    std::process::exit(if ctx.total_viols > 0 { 1 } else { 0 });
}
