//! Complete observation of a (mutable or immutable) bit vector against `RefBits` (C08 oracle).
use crate::refm::RefBits;
use crate::run::{Ctx, Exp};
use crate::sweep::UMAX;
use qwt::{AccessBin, BitVector, BitVectorMut};

/// Runs `f` with fd 2 pointed at /dev/null (the library's `*_with_pos` constructors contain a stray
/// `dbg!`, which would flood the pipe to the parent); panics pass through untouched.
pub fn quiet<R>(f: impl FnOnce() -> R) -> R {
    use std::sync::OnceLock;
    static FDS: OnceLock<(i32, i32)> = OnceLock::new();
    let (saved, null) = *FDS.get_or_init(|| unsafe {
        let saved = libc::dup(2);
        let null = libc::open(b"/dev/null\0".as_ptr() as *const libc::c_char, libc::O_WRONLY);
        (saved, null)
    });
    struct Restore(i32);
    impl Drop for Restore {
        fn drop(&mut self) {
            unsafe {
                libc::dup2(self.0, 2);
            }
        }
    }
    unsafe {
        libc::dup2(null, 2);
    }
    let _r = Restore(saved);
    f()
}

/// Start positions for `*_with_pos`.
pub fn pos_starts(n: usize) -> Vec<usize> {
    let mut v = vec![0, 1, 63, 64, 65, n / 2, n.saturating_sub(1), n, n + 1, n + 64, 511, 512, 513, UMAX - 1, UMAX];
    v.extend(crate::sweep::wrap_args(n));
    v.extend([(1usize << 58) + n.saturating_sub(1), (1 << 61) + n.saturating_sub(1)]);
    v.sort_unstable();
    v.dedup();
    v
}

macro_rules! observe_impl {
    ($name:ident, $ty:ty, $mutable:expr) => {
        pub fn $name(ctx: &mut Ctx, b: &$ty, r: &RefBits, full: bool) {
            let n = r.len();
            let cl = "";
            ctx.obs("len", cl, 0, 0, 0, Exp::Is(n), || b.len());
            ctx.obs("is_empty", cl, 0, 0, 0, Exp::Is(n == 0), || b.is_empty());
            ctx.obs("count_ones", cl, 0, 0, 0, Exp::Is(r.ones.len()), || b.count_ones());
            ctx.obs("count_zeros", cl, 0, 0, 0, Exp::Is(r.zeros.len()), || b.count_zeros());
            // every bit, and just past the end
            let upto = if full || n <= 1200 { n + 1 } else { 0 };
            for i in 0..=upto {
                ctx.obs("get", cl, 0, i as u64, 0, Exp::Is(r.bits.get(i).copied()), || b.get(i));
            }
            if upto == 0 {
                for i in crate::sweep::positions(n, 0) {
                    ctx.obs("get", cl, 0, i as u64, 0, Exp::Is(r.bits.get(i).copied()), || b.get(i));
                }
            }
            ctx.obs("get", cl, 0, UMAX as u64, 0, Exp::Is(None), || b.get(UMAX));
            // multi-bit reads: every 1 <= len <= 64 at every start (all starts when short, otherwise
            // around word / line boundaries and the end)
            let starts: Vec<usize> = if n <= 140 {
                (0..=n).collect()
            } else {
                let mut v: Vec<usize> = vec![0, 1, 2];
                let mut j = 64;
                while j <= n {
                    if j % 512 == 0 || j < 200 || j + 130 > n {
                        for d in [j.saturating_sub(63), j - 2, j - 1, j, j + 1] {
                            v.push(d);
                        }
                    }
                    j += 64;
                }
                for d in 0..=66usize {
                    v.push(n.saturating_sub(d));
                }
                v.retain(|&s| s <= n);
                v.sort_unstable();
                v.dedup();
                v
            };
            // every length in the thorough tier and for short vectors; otherwise the lengths around
            // the byte / half-word / word sizes
            let lens: Vec<usize> = if ctx.thorough() || full || n <= 80 { (0..=65).collect() } else { vec![0, 1, 2, 3, 7, 8, 9, 31, 32, 33, 62, 63, 64, 65] };
            for &s in &starts {
                for &len in &lens {
                    let valid = len >= 1 && len <= 64 && s + len <= n;
                    let kf = $mutable && len >= 1 && len <= 64 && s + len == n;
                    let want = if valid { Some(r.get_bits(s, len)) } else { None };
                    ctx.obs("get_bits", if kf { "index+len==n_bits" } else { cl }, 0, s as u64, len as u64, Exp::Is(want), || b.get_bits(s, len));
                }
            }
            for (s, l) in [(UMAX, 1usize), (UMAX - 3, 4), (UMAX, 64), (n, UMAX), (0, UMAX), (n + 1, 1)] {
                ctx.obs("get_bits", cl, 0, s as u64, l as u64, Exp::Is(None), || b.get_bits(s, l));
            }
            // whole words, with zero padding after the last bit
            for w in 0..(n + 63) / 64 {
                ctx.obs("get_word", cl, 0, w as u64, 0, Exp::Is(r.word(w)), || b.get_word(w));
            }
            // the remaining words of the last 512-bit line exist and must be zero
            let lines = (n + 511) / 512;
            for w in (n + 63) / 64..lines * 8 {
                // a word entirely past the last bit: zero, or the documented out-of-range panic
                ctx.evals += 1;
                if let Ok(v) = crate::run::trap(|| b.get_word(w)) {
                    if v != 0 && !ctx.mute {
                        ctx.violation("get_word", "padding-word", format!("get_word({w})"), "0 (padding) or out-of-range panic".into(), format!("{v}"));
                    }
                }
            }
            ctx.obs_seq("iter", cl, 0, &r.bits, || b.iter().collect::<Vec<bool>>());
            ctx.obs_seq("ones", cl, 0, &r.ones, || b.ones().collect::<Vec<usize>>());
            ctx.obs_seq("zeros", cl, 0, &r.zeros, || b.zeros().collect::<Vec<usize>>());
            ctx.obs("iter().len", cl, 0, 0, 0, Exp::Is(n), || b.iter().len());
            for p in pos_starts(n) {
                let wo = &r.ones[r.ones.partition_point(|&x| x < p)..];
                let wz = &r.zeros[r.zeros.partition_point(|&x| x < p)..];
                ctx.obs_seq("ones_with_pos", cl, p as u64, wo, || quiet(|| b.ones_with_pos(p).collect::<Vec<usize>>()));
                ctx.obs_seq("zeros_with_pos", cl, p as u64, wz, || quiet(|| b.zeros_with_pos(p).collect::<Vec<usize>>()));
            }
        }
    };
}

observe_impl!(observe_bvm, BitVectorMut, true);
observe_impl!(observe_bv, BitVector, false);

/// Conversions, clones and equality (differential oracles without an expected value).
pub fn observe_conversions(ctx: &mut Ctx, b: &BitVectorMut, r: &RefBits, full: bool) {
    let cl = "";
    let bv = ctx.total("BitVector::from(clone)", cl, 0, 0, 0, || BitVector::from(b.clone()));
    if let Some(bv) = bv {
        observe_bv(ctx, &bv, r, full);
        ctx.obs("BitVectorMut::from(BitVector) == original", cl, 0, 0, 0, Exp::Is(true), || BitVectorMut::from(bv.clone()) == *b);
        ctx.obs("BitVector.clone() == BitVector", cl, 0, 0, 0, Exp::Is(true), || bv.clone() == bv);
        ctx.obs("BitVector == collect(bools)", cl, 0, 0, 0, Exp::Is(true), || bv == r.bits.iter().copied().collect::<BitVector>());
        ctx.obs_seq("BitVector::into_iter", cl, 0, &r.bits, || bv.clone().into_iter().collect::<Vec<bool>>());
        ctx.obs_seq("(&BitVector)::into_iter", cl, 0, &r.bits, || (&bv).into_iter().collect::<Vec<bool>>());
    }
    ctx.obs("clone == original", cl, 0, 0, 0, Exp::Is(true), || b.clone() == *b);
    ctx.obs("== collect(bools)", cl, 0, 0, 0, Exp::Is(true), || *b == r.bits.iter().copied().collect::<BitVectorMut>());
    ctx.obs_seq("BitVectorMut::into_iter", cl, 0, &r.bits, || b.clone().into_iter().collect::<Vec<bool>>());
    if r.bits.last() == Some(&true) || r.bits.is_empty() {
        // a position list can express exactly the vectors that end with a one
        ctx.obs("== collect(positions)", cl, 0, 0, 0, Exp::Is(true), || *b == r.ones.iter().copied().collect::<BitVectorMut>());
        ctx.obs("BitVector == collect(positions)", cl, 0, 0, 0, Exp::Is(true), || {
            BitVector::from(b.clone()) == r.ones.iter().copied().collect::<BitVector>()
        });
    }
    // a vector that differs in one bit / in length must compare different
    if !r.bits.is_empty() {
        let mut other = r.bits.clone();
        let j = other.len() / 2;
        other[j] = !other[j];
        ctx.obs("!= vector differing in one bit", cl, 0, j as u64, 0, Exp::Is(false), || *b == other.iter().copied().collect::<BitVectorMut>());
    }
    let mut longer = r.bits.clone();
    longer.push(false);
    ctx.obs("!= vector with one more zero", cl, 0, 0, 0, Exp::Is(false), || *b == longer.iter().copied().collect::<BitVectorMut>());
}
