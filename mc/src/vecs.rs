//! Sweeps of the vector structures (RSQVector, RSNarrow, RSWide, DArray, bit vectors) against
//! `RefSeq<u8>` / `RefBits`.
use crate::refm::{RefBits, RefSeq};
use crate::run::{Ctx, Exp};
use crate::sweep::{occ_indices, positions, UMAX};
use qwt::{AccessBin, AccessQuad, BitVector, DArray, QVector, RSNarrow, RSQVector256, RSQVector512, RSWide, RankBin, RankQuad, SelectBin, SelectQuad, SpaceUsage, WTSupport};
use serde::{de::DeserializeOwned, Serialize};
use std::fmt::Debug;

pub trait QuadRS: AccessQuad + RankQuad + SelectQuad + WTSupport + From<QVector> + Clone + PartialEq + Debug + Serialize + DeserializeOwned + Default + SpaceUsage + Send + Sync + 'static {
    const NAME: &'static str;
    const BLOCK: usize;
    fn new_u8(v: &[u8]) -> Self;
    fn collect_u64(v: &[u8]) -> Self;
    /// collect from an iterator without an exact size hint
    fn collect_filtered(v: &[u8]) -> Self;
    fn collect_hinted(v: &[u8], kind: u8) -> Self;
    fn len_(&self) -> usize;
    fn is_empty_(&self) -> bool;
    fn iter_vec(&self) -> Vec<u8>;
    fn ref_into_iter_vec(&self) -> Vec<u8>;
    fn into_iter_vec(self) -> Vec<u8>;
    /// see Tree::iter_op (forward-only iterator)
    fn iter_op(&self, which: u8, a: usize, rest: &[u8], op: crate::iterops::IterOp) -> crate::iterops::Out<u8>;
}

macro_rules! impl_quadrs {
    ($t:ty, $name:expr, $b:expr) => {
        impl QuadRS for $t {
            const NAME: &'static str = $name;
            const BLOCK: usize = $b;
            fn new_u8(v: &[u8]) -> Self {
                <$t>::new(v)
            }
            fn collect_u64(v: &[u8]) -> Self {
                v.iter().map(|&x| x as u64).collect()
            }
            fn collect_filtered(v: &[u8]) -> Self {
                v.iter().copied().filter(|_| true).collect()
            }
            fn collect_hinted(v: &[u8], kind: u8) -> Self {
                crate::iterops::hinted(v.to_vec(), kind).collect()
            }
            fn len_(&self) -> usize {
                self.len()
            }
            fn is_empty_(&self) -> bool {
                self.is_empty()
            }
            fn iter_vec(&self) -> Vec<u8> {
                self.iter().collect()
            }
            fn ref_into_iter_vec(&self) -> Vec<u8> {
                let mut v = Vec::new();
                for x in self {
                    v.push(x);
                }
                v
            }
            fn into_iter_vec(self) -> Vec<u8> {
                self.into_iter().collect()
            }
            fn iter_op(&self, which: u8, a: usize, rest: &[u8], op: crate::iterops::IterOp) -> crate::iterops::Out<u8> {
                use crate::iterops::*;
                match which {
                    0 => { let mut it = self.iter(); advance(&mut it, a); apply_fwd(it, rest, op, None) }
                    1 => { let mut it = self.into_iter(); advance(&mut it, a); apply_fwd(it, rest, op, None) }
                    _ => { let mut it = self.clone().into_iter(); advance(&mut it, a); apply_fwd(it, rest, op, None) }
                }
            }
        }
    };
}
impl_quadrs!(RSQVector256, "RSQVector256", 256);
impl_quadrs!(RSQVector512, "RSQVector512", 512);

pub const QUAD_SYMS: [u8; 9] = [0, 1, 2, 3, 4, 5, 6, 7, 255];

pub fn sweep_quadrs<X: QuadRS>(ctx: &mut Ctx, t: &X, r: &RefSeq<u8>, dense: usize, unchecked: bool, cl: &str) {
    let n = r.len();
    ctx.obs("len", cl, 0, 0, 0, Exp::Is(n), || t.len_());
    ctx.obs("is_empty", cl, 0, 0, 0, Exp::Is(n == 0), || t.is_empty_());
    let pos = positions(n, dense);
    for &i in &pos {
        ctx.obs("get", cl, 0, i as u64, 0, Exp::Is(r.seq.get(i).copied()), || t.get(i));
        if unchecked && i < n {
            ctx.obs("get_unchecked", cl, 0, i as u64, 0, Exp::Is(r.seq[i]), || unsafe { t.get_unchecked(i) });
        }
    }
    if n > dense && n <= (1 << 21) {
        for i in 0..n {
            ctx.obs("get", cl, 0, i as u64, 0, Exp::Is(Some(r.seq[i])), || t.get(i));
        }
    }
    for &s in &QUAD_SYMS {
        for &i in &pos {
            let exp = if s > 3 || i > n {
                Exp::Is(None)
            } else if n == 0 {
                Exp::OneOf(Some(0), None)
            } else {
                Exp::Is(Some(r.rank(s, i)))
            };
            ctx.obs("rank", cl, s as u128, i as u64, 0, exp, || t.rank(s, i));
            if unchecked && s <= 3 && i <= n {
                ctx.obs("rank_unchecked", cl, s as u128, i as u64, 0, Exp::Is(r.rank(s, i)), || unsafe { t.rank_unchecked(s, i) });
            }
        }
        let cnt = if s <= 3 { r.count(s) } else { 0 };
        for &k in &occ_indices(cnt, dense) {
            let want = if s <= 3 { r.select(s, k) } else { None };
            ctx.obs("select", cl, s as u128, k as u64, 0, Exp::Is(want), || t.select(s, k));
            if unchecked {
                if let Some(p) = want {
                    ctx.obs("select_unchecked", cl, s as u128, k as u64, 0, Exp::Is(p), || unsafe { t.select_unchecked(s, k) });
                }
            }
        }
        let occs = if s <= 3 { Some(r.count(s)) } else { None };
        let smaller = if s <= 3 { Some((0..s).map(|x| r.count(x)).sum::<usize>()) } else { None };
        ctx.obs("occs", cl, s as u128, 0, 0, Exp::Is(occs), || t.occs(s));
        ctx.obs("occs_smaller", cl, s as u128, 0, 0, Exp::Is(smaller), || t.occs_smaller(s));
        if unchecked && s <= 3 {
            ctx.obs("occs_unchecked", cl, s as u128, 0, 0, Exp::Is(occs.unwrap()), || unsafe { t.occs_unchecked(s) });
            ctx.obs("occs_smaller_unchecked", cl, s as u128, 0, 0, Exp::Is(smaller.unwrap()), || unsafe { t.occs_smaller_unchecked(s) });
        }
    }
}

pub trait BinRS: AccessBin + RankBin + SelectBin + From<BitVector> + Clone + PartialEq + Debug + Serialize + DeserializeOwned + Default + SpaceUsage + Send + Sync + 'static {
    const NAME: &'static str;
    fn new_(bv: BitVector) -> Self;
    fn n_ones_(&self) -> usize;
    fn n_zeros_inherent(&self) -> usize;
    fn bv_len_(&self) -> Option<usize>;
}
impl BinRS for RSNarrow {
    const NAME: &'static str = "RSNarrow";
    fn new_(bv: BitVector) -> Self {
        RSNarrow::new(bv)
    }
    fn n_ones_(&self) -> usize {
        self.n_ones()
    }
    fn n_zeros_inherent(&self) -> usize {
        RSNarrow::n_zeros(self)
    }
    fn bv_len_(&self) -> Option<usize> {
        None
    }
}
impl BinRS for RSWide {
    const NAME: &'static str = "RSWide";
    fn new_(bv: BitVector) -> Self {
        RSWide::new(bv)
    }
    fn n_ones_(&self) -> usize {
        self.n_ones()
    }
    fn n_zeros_inherent(&self) -> usize {
        RSWide::n_zeros(self)
    }
    fn bv_len_(&self) -> Option<usize> {
        Some(self.bv_len())
    }
}

pub fn sweep_binrs<X: BinRS>(ctx: &mut Ctx, t: &X, r: &RefBits, dense: usize, unchecked: bool, cl: &str) {
    let n = r.len();
    let ones = r.ones.len();
    let zeros = r.zeros.len();
    ctx.obs("n_ones", cl, 0, 0, 0, Exp::Is(ones), || t.n_ones_());
    ctx.obs("n_zeros", cl, 0, 0, 0, Exp::Is(zeros), || t.n_zeros_inherent());
    ctx.obs("RankBin::n_zeros", cl, 0, 0, 0, Exp::Is(zeros), || RankBin::n_zeros(t));
    if X::NAME == "RSWide" {
        ctx.obs("bv_len", cl, 0, 0, 0, Exp::Is(Some(n)), || t.bv_len_());
    }
    let pos = positions(n, dense);
    for &i in &pos {
        ctx.obs("get", cl, 0, i as u64, 0, Exp::Is(r.bits.get(i).copied()), || t.get(i));
        let (e1, e0) = if i > n {
            (Exp::Is(None), Exp::Is(None))
        } else if n == 0 {
            (Exp::OneOf(None, Some(0)), Exp::OneOf(None, Some(0)))
        } else {
            (Exp::Is(Some(r.rank1(i))), Exp::Is(Some(i - r.rank1(i))))
        };
        ctx.obs("rank1", cl, 0, i as u64, 0, e1, || t.rank1(i));
        ctx.obs("rank0", cl, 0, i as u64, 0, e0, || t.rank0(i));
        if unchecked && n > 0 && i <= n {
            ctx.obs("rank1_unchecked", cl, 0, i as u64, 0, Exp::Is(r.rank1(i)), || unsafe { t.rank1_unchecked(i) });
            ctx.obs("rank0_unchecked", cl, 0, i as u64, 0, Exp::Is(i - r.rank1(i)), || unsafe { t.rank0_unchecked(i) });
        }
        if unchecked && i < n {
            ctx.obs("get_unchecked", cl, 0, i as u64, 0, Exp::Is(r.bits[i]), || unsafe { t.get_unchecked(i) });
        }
    }
    for &k in &occ_indices(ones, dense) {
        ctx.obs("select1", cl, 0, k as u64, 0, Exp::Is(r.select1(k)), || t.select1(k));
        if unchecked {
            if let Some(p) = r.select1(k) {
                ctx.obs("select1_unchecked", cl, 0, k as u64, 0, Exp::Is(p), || unsafe { t.select1_unchecked(k) });
            }
        }
    }
    for &k in &occ_indices(zeros, dense) {
        ctx.obs("select0", cl, 0, k as u64, 0, Exp::Is(r.select0(k)), || t.select0(k));
        if unchecked {
            if let Some(p) = r.select0(k) {
                ctx.obs("select0_unchecked", cl, 0, k as u64, 0, Exp::Is(p), || unsafe { t.select0_unchecked(k) });
            }
        }
    }
}

/// Positions at which the position iterators are started.
pub fn with_pos_starts(n: usize, extra: &[usize]) -> Vec<usize> {
    let mut v = vec![0, 1, 63, 64, 65, 511, 512, 513, n / 2, n.saturating_sub(1), n, n + 1, n + 64, UMAX - 1, UMAX];
    v.extend(crate::sweep::wrap_args(n));
    v.extend([(1usize << 58) + n.saturating_sub(1), (1 << 61) + n.saturating_sub(1)]);
    v.extend_from_slice(extra);
    v.sort_unstable();
    v.dedup();
    v
}

pub fn sweep_darray<const S0: bool>(ctx: &mut Ctx, t: &DArray<S0>, r: &RefBits, dense: usize, unchecked: bool, cl: &str, starts: &[usize]) {
    let n = r.len();
    let ones = r.ones.len();
    let zeros = r.zeros.len();
    ctx.obs("len", cl, 0, 0, 0, Exp::Is(n), || t.len());
    ctx.obs("is_empty", cl, 0, 0, 0, Exp::Is(n == 0), || t.is_empty());
    ctx.obs("count_ones", cl, 0, 0, 0, Exp::Is(ones), || t.count_ones());
    ctx.obs("count_zeros", cl, 0, 0, 0, Exp::Is(zeros), || t.count_zeros());
    for &i in &positions(n, dense.min(2049)) {
        ctx.obs("get", cl, 0, i as u64, 0, Exp::Is(r.bits.get(i).copied()), || t.get(i));
        if unchecked && i < n {
            ctx.obs("get_unchecked", cl, 0, i as u64, 0, Exp::Is(r.bits[i]), || unsafe { t.get_unchecked(i) });
        }
    }
    for &k in &occ_indices(ones, dense) {
        ctx.obs("select1", cl, 0, k as u64, 0, Exp::Is(r.select1(k)), || t.select1(k));
        if unchecked {
            if let Some(p) = r.select1(k) {
                ctx.obs("select1_unchecked", cl, 0, k as u64, 0, Exp::Is(p), || unsafe { t.select1_unchecked(k) });
            }
        }
    }
    if S0 {
        for &k in &occ_indices(zeros, dense) {
            ctx.obs("select0", cl, 0, k as u64, 0, Exp::Is(r.select0(k)), || t.select0(k));
            if unchecked {
                if let Some(p) = r.select0(k) {
                    ctx.obs("select0_unchecked", cl, 0, k as u64, 0, Exp::Is(p), || unsafe { t.select0_unchecked(k) });
                }
            }
        }
    }
    ctx.obs_seq("ones", cl, 0, &r.ones, || t.ones().collect::<Vec<usize>>());
    ctx.obs_seq("zeros", cl, 0, &r.zeros, || t.zeros().collect::<Vec<usize>>());
    ctx.obs_seq("iter", cl, 0, &r.bits, || t.iter().collect::<Vec<bool>>());
    for &p in starts {
        let wo = &r.ones[r.ones.partition_point(|&x| x < p)..];
        let wz = &r.zeros[r.zeros.partition_point(|&x| x < p)..];
        ctx.obs_seq("ones_with_pos", cl, p as u64, wo, || t.ones_with_pos(p).collect::<Vec<usize>>());
        ctx.obs_seq("zeros_with_pos", cl, p as u64, wz, || t.zeros_with_pos(p).collect::<Vec<usize>>());
    }
}
