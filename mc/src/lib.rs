pub mod bvobs;
pub mod gens;
pub mod jrn;
pub mod refm;
pub mod run;
pub mod sweep;
pub mod trees;
pub mod vecs;
