//! Reads one field that is a sequence of unsigned integers out of a value's serde representation, without
//! serializing anything else: `u64_seq_field(&tree, "lens")` gives the sizes of the levels of a wavelet tree
//! (C15 bounds the level data itself). None if the value is not a struct with such a field.
use serde::ser::{self, Impossible, Serialize, SerializeSeq, SerializeStruct, Serializer};
use std::fmt::Display;

#[derive(Debug)]
pub struct E(String);
impl Display for E {
    fn fmt(&self, f: &mut std::fmt::Formatter<'_>) -> std::fmt::Result {
        write!(f, "{}", self.0)
    }
}
impl std::error::Error for E {}
impl ser::Error for E {
    fn custom<T: Display>(m: T) -> Self {
        E(m.to_string())
    }
}
fn no<T>() -> Result<T, E> {
    Err(E("unsupported".into()))
}

pub fn u64_seq_field<V: Serialize>(v: &V, name: &'static str) -> Option<Vec<u64>> {
    let mut out = None;
    v.serialize(Top { name, out: &mut out }).ok()?;
    out
}

macro_rules! scalars_unsupported {
    ($($f:ident: $t:ty),*) => { $(fn $f(self, _: $t) -> Result<Self::Ok, E> { no() })* };
}
macro_rules! compounds_unsupported {
    () => {
        type SerializeTuple = Impossible<(), E>;
        type SerializeTupleStruct = Impossible<(), E>;
        type SerializeTupleVariant = Impossible<(), E>;
        type SerializeMap = Impossible<(), E>;
        type SerializeStructVariant = Impossible<(), E>;
        fn serialize_str(self, _: &str) -> Result<(), E> { no() }
        fn serialize_bytes(self, _: &[u8]) -> Result<(), E> { no() }
        fn serialize_none(self) -> Result<(), E> { no() }
        fn serialize_some<T: ?Sized + Serialize>(self, _: &T) -> Result<(), E> { no() }
        fn serialize_unit(self) -> Result<(), E> { no() }
        fn serialize_unit_struct(self, _: &'static str) -> Result<(), E> { no() }
        fn serialize_unit_variant(self, _: &'static str, _: u32, _: &'static str) -> Result<(), E> { no() }
        fn serialize_newtype_variant<T: ?Sized + Serialize>(self, _: &'static str, _: u32, _: &'static str, _: &T) -> Result<(), E> { no() }
        fn serialize_tuple(self, _: usize) -> Result<Self::SerializeTuple, E> { no() }
        fn serialize_tuple_struct(self, _: &'static str, _: usize) -> Result<Self::SerializeTupleStruct, E> { no() }
        fn serialize_tuple_variant(self, _: &'static str, _: u32, _: &'static str, _: usize) -> Result<Self::SerializeTupleVariant, E> { no() }
        fn serialize_map(self, _: Option<usize>) -> Result<Self::SerializeMap, E> { no() }
        fn serialize_struct_variant(self, _: &'static str, _: u32, _: &'static str, _: usize) -> Result<Self::SerializeStructVariant, E> { no() }
    };
}

struct Top<'a> {
    name: &'static str,
    out: &'a mut Option<Vec<u64>>,
}
impl<'a> Serializer for Top<'a> {
    type Ok = ();
    type Error = E;
    type SerializeSeq = Impossible<(), E>;
    type SerializeStruct = TopStruct<'a>;
    compounds_unsupported!();
    scalars_unsupported!(serialize_bool: bool, serialize_i8: i8, serialize_i16: i16, serialize_i32: i32, serialize_i64: i64, serialize_u8: u8, serialize_u16: u16,
        serialize_u32: u32, serialize_u64: u64, serialize_f32: f32, serialize_f64: f64, serialize_char: char);
    fn serialize_newtype_struct<T: ?Sized + Serialize>(self, _: &'static str, value: &T) -> Result<(), E> {
        value.serialize(self)
    }
    fn serialize_seq(self, _: Option<usize>) -> Result<Self::SerializeSeq, E> {
        no()
    }
    fn serialize_struct(self, _: &'static str, _: usize) -> Result<TopStruct<'a>, E> {
        Ok(TopStruct { name: self.name, out: self.out })
    }
}
struct TopStruct<'a> {
    name: &'static str,
    out: &'a mut Option<Vec<u64>>,
}
impl<'a> SerializeStruct for TopStruct<'a> {
    type Ok = ();
    type Error = E;
    fn serialize_field<T: ?Sized + Serialize>(&mut self, key: &'static str, value: &T) -> Result<(), E> {
        if key == self.name {
            let mut v = Vec::new();
            if value.serialize(Nums { out: &mut v }).is_ok() {
                *self.out = Some(v);
            }
        }
        Ok(())
    }
    fn end(self) -> Result<(), E> {
        Ok(())
    }
}

struct Nums<'a> {
    out: &'a mut Vec<u64>,
}
impl<'a> Serializer for Nums<'a> {
    type Ok = ();
    type Error = E;
    type SerializeSeq = Self;
    type SerializeStruct = Impossible<(), E>;
    compounds_unsupported!();
    scalars_unsupported!(serialize_bool: bool, serialize_i8: i8, serialize_i16: i16, serialize_i32: i32, serialize_i64: i64, serialize_u8: u8, serialize_u16: u16,
        serialize_u32: u32, serialize_u64: u64, serialize_f32: f32, serialize_f64: f64, serialize_char: char);
    fn serialize_newtype_struct<T: ?Sized + Serialize>(self, _: &'static str, value: &T) -> Result<(), E> {
        value.serialize(self)
    }
    fn serialize_seq(self, _: Option<usize>) -> Result<Self, E> {
        Ok(self)
    }
    fn serialize_struct(self, _: &'static str, _: usize) -> Result<Self::SerializeStruct, E> {
        no()
    }
}
impl<'a> SerializeSeq for Nums<'a> {
    type Ok = ();
    type Error = E;
    fn serialize_element<T: ?Sized + Serialize>(&mut self, value: &T) -> Result<(), E> {
        let mut x = None;
        value.serialize(One { out: &mut x })?;
        self.out.push(x.ok_or_else(|| E("not a number".into()))?);
        Ok(())
    }
    fn end(self) -> Result<(), E> {
        Ok(())
    }
}

struct One<'a> {
    out: &'a mut Option<u64>,
}
impl<'a> Serializer for One<'a> {
    type Ok = ();
    type Error = E;
    type SerializeSeq = Impossible<(), E>;
    type SerializeStruct = Impossible<(), E>;
    compounds_unsupported!();
    scalars_unsupported!(serialize_bool: bool, serialize_i8: i8, serialize_i16: i16, serialize_i32: i32, serialize_i64: i64, serialize_f32: f32, serialize_f64: f64, serialize_char: char);
    fn serialize_u8(self, v: u8) -> Result<(), E> {
        *self.out = Some(v as u64);
        Ok(())
    }
    fn serialize_u16(self, v: u16) -> Result<(), E> {
        *self.out = Some(v as u64);
        Ok(())
    }
    fn serialize_u32(self, v: u32) -> Result<(), E> {
        *self.out = Some(v as u64);
        Ok(())
    }
    fn serialize_u64(self, v: u64) -> Result<(), E> {
        *self.out = Some(v);
        Ok(())
    }
    fn serialize_newtype_struct<T: ?Sized + Serialize>(self, _: &'static str, value: &T) -> Result<(), E> {
        value.serialize(self)
    }
    fn serialize_seq(self, _: Option<usize>) -> Result<Self::SerializeSeq, E> {
        no()
    }
    fn serialize_struct(self, _: &'static str, _: usize) -> Result<Self::SerializeStruct, E> {
        no()
    }
}
