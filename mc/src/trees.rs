//! Uniform access to the ten wavelet-tree aliases over the six element types.
use qwt::{AccessUnsigned, RankUnsigned, SelectUnsigned, SpaceUsage};
use serde::{de::DeserializeOwned, Serialize};
use std::fmt::Debug;
use std::hash::Hash;

pub trait Elem: Copy + Ord + Debug + Hash + Serialize + DeserializeOwned + Send + Sync + 'static {
    const BITS: u32;
    const NAME: &'static str;
    fn from_u128(v: u128) -> Self;
    fn to_u128(self) -> u128;
}

macro_rules! impl_elem {
    ($($t:ty),*) => {$(
        impl Elem for $t {
            const BITS: u32 = <$t>::BITS;
            const NAME: &'static str = stringify!($t);
            fn from_u128(v: u128) -> Self { v as $t }
            fn to_u128(self) -> u128 { self as u128 }
        }
    )*};
}
impl_elem!(u8, u16, u32, u64, usize, u128);

pub trait DeIter<T>: DoubleEndedIterator<Item = T> + ExactSizeIterator {}
impl<T, I: DoubleEndedIterator<Item = T> + ExactSizeIterator> DeIter<T> for I {}

pub trait Tree: Sized + Clone + PartialEq + Debug + Serialize + DeserializeOwned + Default + SpaceUsage + Send + Sync + 'static {
    type T: Elem;
    const ALIAS: &'static str;
    const HUFF: bool;
    const QUAD: bool;
    const PFS: bool;
    fn name() -> String {
        format!("{}<{}>", Self::ALIAS, <Self::T as Elem>::NAME)
    }
    fn new_(v: &mut [Self::T]) -> Self;
    fn from_vec(v: Vec<Self::T>) -> Self;
    fn collect_(v: Vec<Self::T>) -> Self;
    /// collect from an iterator whose size hint is of the given kind (iterops::hinted)
    fn collect_hinted(v: Vec<Self::T>, kind: u8) -> Self;
    fn len_(&self) -> usize;
    fn is_empty_(&self) -> bool;
    fn n_levels_(&self) -> usize;
    /// `Some(sigma())` for the plain quad tree, `None` for types without the accessor
    fn sigma_(&self) -> Option<Option<Self::T>>;
    fn get_(&self, i: usize) -> Option<Self::T>;
    fn rank_(&self, c: Self::T, i: usize) -> Option<usize>;
    fn select_(&self, c: Self::T, k: usize) -> Option<usize>;
    /// `None` for the binary trees (no such method)
    fn rank_prefetch_(&self, c: Self::T, i: usize) -> Option<Option<usize>>;
    /// # Safety
    /// preconditions of the wrapped unchecked methods
    unsafe fn get_unchecked_(&self, i: usize) -> Self::T;
    /// # Safety
    /// see above
    unsafe fn rank_unchecked_(&self, c: Self::T, i: usize) -> usize;
    /// # Safety
    /// see above
    unsafe fn select_unchecked_(&self, c: Self::T, k: usize) -> usize;
    /// # Safety
    /// see above
    unsafe fn rank_prefetch_unchecked_(&self, c: Self::T, i: usize) -> Option<usize>;
    fn iter_(&self) -> Box<dyn DeIter<Self::T> + '_>;
    fn ref_into_iter_(&self) -> Box<dyn DeIter<Self::T> + '_>;
    fn into_iter_(self) -> Box<dyn DeIter<Self::T>>;
    /// One overridable iterator operation on the concrete iterator type (`which`: 0 iter(), 1 (&tree).into_iter(),
    /// 2 clone().into_iter()) after `a` next() and `b` next_back() calls; see iterops.
    fn iter_op(&self, which: u8, a: usize, b: usize, rest: &[Self::T], op: crate::iterops::IterOp) -> crate::iterops::Out<Self::T>;
}

macro_rules! tree_sigma {
    (qp, $s:ident) => { Some($s.sigma()) };
    (qh, $s:ident) => { None };
    (bin, $s:ident) => { None };
}
macro_rules! tree_pf {
    (bin, $s:ident, $c:ident, $i:ident) => { None };
    ($k:ident, $s:ident, $c:ident, $i:ident) => { Some($s.rank_prefetch($c, $i)) };
}
macro_rules! tree_pfu {
    (bin, $s:ident, $c:ident, $i:ident) => { None };
    ($k:ident, $s:ident, $c:ident, $i:ident) => { Some($s.rank_prefetch_unchecked($c, $i)) };
}

/// One newtype per alias, so that the `Tree` impls stay distinct types even if two aliases of the
/// library were (by mistake) to denote the same type: the harness must keep compiling in that case.
macro_rules! wrapper {
    ($alias:ident) => {
        #[derive(PartialEq, Debug, Default, serde::Serialize, serde::Deserialize)]
        #[serde(transparent)]
        pub struct $alias<T>(pub qwt::$alias<T>);
        // Clone by hand so that clone_from reaches the library's own clone_from (a derive only forwards clone)
        impl<T> Clone for $alias<T>
        where
            qwt::$alias<T>: Clone,
        {
            fn clone(&self) -> Self {
                $alias(self.0.clone())
            }
            fn clone_from(&mut self, source: &Self) {
                self.0.clone_from(&source.0)
            }
        }
        impl<T> SpaceUsage for $alias<T>
        where
            qwt::$alias<T>: SpaceUsage,
        {
            fn space_usage_byte(&self) -> usize {
                self.0.space_usage_byte()
            }
        }
    };
}
wrapper!(QWT256);
wrapper!(QWT512);
wrapper!(QWT256Pfs);
wrapper!(QWT512Pfs);
wrapper!(HQWT256);
wrapper!(HQWT512);
wrapper!(HQWT256Pfs);
wrapper!(HQWT512Pfs);
wrapper!(WT);
wrapper!(HWT);

macro_rules! impl_tree {
    ($alias:ident, $huff:expr, $quad:expr, $pfs:expr, $kind:ident; $($t:ty),*) => {$(
        impl Tree for $alias<$t> {
            type T = $t;
            const ALIAS: &'static str = stringify!($alias);
            const HUFF: bool = $huff;
            const QUAD: bool = $quad;
            const PFS: bool = $pfs;
            fn new_(v: &mut [$t]) -> Self { $alias(qwt::$alias::<$t>::new(v)) }
            fn from_vec(v: Vec<$t>) -> Self { $alias(qwt::$alias::<$t>::from(v)) }
            fn collect_(v: Vec<$t>) -> Self { $alias(v.into_iter().collect()) }
            fn collect_hinted(v: Vec<$t>, kind: u8) -> Self { $alias(crate::iterops::hinted(v, kind).collect()) }
            fn len_(&self) -> usize { self.0.len() }
            fn is_empty_(&self) -> bool { self.0.is_empty() }
            fn n_levels_(&self) -> usize { self.0.n_levels() }
            #[allow(unused_variables)]
            fn sigma_(&self) -> Option<Option<$t>> { let t = &self.0; tree_sigma!($kind, t) }
            fn get_(&self, i: usize) -> Option<$t> { self.0.get(i) }
            fn rank_(&self, c: $t, i: usize) -> Option<usize> { self.0.rank(c, i) }
            fn select_(&self, c: $t, k: usize) -> Option<usize> { self.0.select(c, k) }
            #[allow(unused_variables)]
            fn rank_prefetch_(&self, c: $t, i: usize) -> Option<Option<usize>> { let t = &self.0; tree_pf!($kind, t, c, i) }
            unsafe fn get_unchecked_(&self, i: usize) -> $t { self.0.get_unchecked(i) }
            unsafe fn rank_unchecked_(&self, c: $t, i: usize) -> usize { self.0.rank_unchecked(c, i) }
            unsafe fn select_unchecked_(&self, c: $t, k: usize) -> usize { self.0.select_unchecked(c, k) }
            #[allow(unused_variables)]
            unsafe fn rank_prefetch_unchecked_(&self, c: $t, i: usize) -> Option<usize> { let t = &self.0; tree_pfu!($kind, t, c, i) }
            fn iter_(&self) -> Box<dyn DeIter<$t> + '_> { Box::new(self.0.iter()) }
            fn ref_into_iter_(&self) -> Box<dyn DeIter<$t> + '_> { Box::new((&self.0).into_iter()) }
            fn into_iter_(self) -> Box<dyn DeIter<$t>> { Box::new(self.0.into_iter()) }
            fn iter_op(&self, which: u8, a: usize, b: usize, rest: &[$t], op: crate::iterops::IterOp) -> crate::iterops::Out<$t> {
                use crate::iterops::*;
                match which {
                    0 => { let mut it = self.0.iter(); advance(&mut it, a); retreat(&mut it, b); apply_de(it, rest, op) }
                    1 => { let mut it = (&self.0).into_iter(); advance(&mut it, a); retreat(&mut it, b); apply_de(it, rest, op) }
                    _ => { let mut it = self.0.clone().into_iter(); advance(&mut it, a); retreat(&mut it, b); apply_de(it, rest, op) }
                }
            }
        }
    )*};
}

impl_tree!(QWT256, false, true, false, qp; u8, u16, u32, u64, usize, u128);
impl_tree!(QWT512, false, true, false, qp; u8, u16, u32, u64, usize, u128);
impl_tree!(QWT256Pfs, false, true, true, qp; u8, u16, u32, u64, usize, u128);
impl_tree!(QWT512Pfs, false, true, true, qp; u8, u16, u32, u64, usize, u128);
impl_tree!(HQWT256, true, true, false, qh; u8, u16, u32, u64, usize, u128);
impl_tree!(HQWT512, true, true, false, qh; u8, u16, u32, u64, usize, u128);
impl_tree!(HQWT256Pfs, true, true, true, qh; u8, u16, u32, u64, usize, u128);
impl_tree!(HQWT512Pfs, true, true, true, qh; u8, u16, u32, u64, usize, u128);
impl_tree!(WT, false, false, false, bin; u8, u16, u32, u64, usize, u128);
impl_tree!(HWT, true, false, false, bin; u8, u16, u32, u64, usize, u128);

/// Calls `$f::<Tree type>($($args),*)` for the alias/element named at run time.
#[macro_export]
macro_rules! with_tree {
    ($alias:expr, $elem:expr, $f:ident ( $($args:expr),* )) => {{
        macro_rules! __elem {
            ($a:ident) => {
                match $elem {
                    "u8" => $f::<$crate::trees::$a<u8>>($($args),*),
                    "u16" => $f::<$crate::trees::$a<u16>>($($args),*),
                    "u32" => $f::<$crate::trees::$a<u32>>($($args),*),
                    "u64" => $f::<$crate::trees::$a<u64>>($($args),*),
                    "usize" => $f::<$crate::trees::$a<usize>>($($args),*),
                    "u128" => $f::<$crate::trees::$a<u128>>($($args),*),
                    e => panic!("unknown element type {e}"),
                }
            };
        }
        match $alias {
            "QWT256" => __elem!(QWT256),
            "QWT512" => __elem!(QWT512),
            "QWT256Pfs" => __elem!(QWT256Pfs),
            "QWT512Pfs" => __elem!(QWT512Pfs),
            "HQWT256" => __elem!(HQWT256),
            "HQWT512" => __elem!(HQWT512),
            "HQWT256Pfs" => __elem!(HQWT256Pfs),
            "HQWT512Pfs" => __elem!(HQWT512Pfs),
            "WT" => __elem!(WT),
            "HWT" => __elem!(HWT),
            a => panic!("unknown tree alias {a}"),
        }
    }};
}

pub const PLAIN_QUAD: [&str; 4] = ["QWT256", "QWT512", "QWT256Pfs", "QWT512Pfs"];
pub const HUFF_QUAD: [&str; 4] = ["HQWT256", "HQWT512", "HQWT256Pfs", "HQWT512Pfs"];
pub const ELEMS: [&str; 6] = ["u8", "u16", "u32", "u64", "usize", "u128"];

pub fn elem_bits(e: &str) -> u32 {
    match e {
        "u8" => 8,
        "u16" => 16,
        "u32" => 32,
        "u64" | "usize" => 64,
        "u128" => 128,
        _ => panic!("elem"),
    }
}
