//! Explorer for the vector structures: C05 (RSQVector256/512), C06 (RSNarrow/RSWide), C07 (DArray).
use mc::gens::*;
use mc::refm::{RefBits, RefSeq};
use mc::run::*;
use mc::vecs::*;
use qwt::{BitVector, DArray, QVector, RSNarrow, RSQVector256, RSQVector512, RSWide};
use serde::{Deserialize, Serialize};

#[derive(Debug, Clone, Serialize, Deserialize)]
enum VCase {
    Quad { ty: String, gen: Gen, path: u8, dense: usize },
    Bin { ty: String, gen: BitGen, path: u8, dense: usize },
    DArr { sel0: bool, gen: BitGen, path: u8, dense: usize },
}

impl Case for VCase {
    fn run(&self, ctx: &mut Ctx) {
        match self {
            VCase::Quad { ty, gen, path, dense } => match ty.as_str() {
                "RSQVector256" => run_quad::<RSQVector256>(ctx, gen, *path, *dense),
                "RSQVector512" => run_quad::<RSQVector512>(ctx, gen, *path, *dense),
                t => panic!("unknown type {t}"),
            },
            VCase::Bin { ty, gen, path, dense } => match ty.as_str() {
                "RSNarrow" => run_bin::<RSNarrow>(ctx, gen, *path, *dense),
                "RSWide" => run_bin::<RSWide>(ctx, gen, *path, *dense),
                t => panic!("unknown type {t}"),
            },
            VCase::DArr { sel0, gen, path, dense } => {
                if *sel0 {
                    run_darray::<true>(ctx, gen, *path, *dense)
                } else {
                    run_darray::<false>(ctx, gen, *path, *dense)
                }
            }
        }
    }
    fn weight(&self) -> u64 {
        match self {
            VCase::Quad { gen, .. } => gen.approx_len() * 16,
            VCase::Bin { gen, .. } => gen.approx_len() * 4,
            VCase::DArr { gen, .. } => gen.approx_len() * 4,
        }
    }
}

/// Derived states (bincode round trip) are swept for every long input and for a quarter of the tiny ones.
fn derived_wanted<T: std::hash::Hash>(input: &[T]) -> bool {
    input.len() > 24 || h64(&input) % 4 == 0
}

/// donors of the clone_from route: all three for long inputs, one (chosen by the content hash) for tiny ones
fn donors_for<T: std::hash::Hash>(input: &[T]) -> Vec<u8> {
    if input.len() > 24 {
        vec![0, 1, 2]
    } else {
        vec![((h64(&input) / 4) % 3) as u8]
    }
}

fn round_trip<X: Serialize + serde::de::DeserializeOwned>(ctx: &mut Ctx, t: &X) -> Option<X> {
    ctx.count("derived_states_swept");
    ctx.total("deserialize(serialize(..))", "deserialized", 0, 0, 0, || bincode::deserialize::<X>(&bincode::serialize(t).unwrap()).unwrap())
}

fn run_quad<X: QuadRS>(ctx: &mut Ctx, gen: &Gen, path: u8, dense: usize) {
    let q: Vec<u8> = gen.abstract_seq().iter().map(|&s| (s % 4) as u8).collect();
    let r = RefSeq::new(&q);
    ctx.set_ty(X::NAME);
    ctx.note_input(&q, !q.is_empty());
    let n = q.len();
    if n > 2048 {
        ctx.count("cases_with_2+_superblocks_256");
    }
    if n > 4096 {
        ctx.count("cases_with_2+_superblocks_512");
    }
    if r.occ.values().any(|v| v.len() > 8192) {
        ctx.count("cases_crossing_a_select_sample");
    }
    if r.occ.values().any(|v| v.len() > 2 * 8192) {
        ctx.count("cases_crossing_two_select_samples");
    }
    if n == 0 {
        ctx.count("empty_cases");
    }
    if r.occ.len() < 4 && n > 0 {
        ctx.count("cases_with_absent_symbol");
    }
    ctx.maxi("max_len", n as u64);
    let t = ctx.total("construct", "", path as u128, n as u64, 0, || match path {
        0 => X::new_u8(&q),
        1 => X::from(q.iter().copied().collect::<QVector>()),
        3 => {
            // a quad vector assembled in several builder steps: pushes, then extend, then pushes, then extend
            let mut b = qwt::QVectorBuilder::new();
            let k1 = (1 + n % 129).min(n);
            let k2 = (k1 + 130).min(n);
            let k3 = (k2 + 1).min(n);
            for &x in &q[..k1] {
                b.push(x);
            }
            b.extend(q[k1..k2].iter().copied());
            for &x in &q[k2..k3] {
                b.push(x);
            }
            b.extend(q[k3..].iter().map(|&x| x as u64));
            X::from(b.build())
        }
        _ => X::collect_u64(&q),
    });
    if n == 0 {
        if let Some(d) = ctx.total("default", "default", 0, 0, 0, X::default) {
            sweep_quadrs(ctx, &d, &r, dense, false, "default");
            ctx.count("default_states_swept");
        }
    }
    if let Some(t) = t {
        sweep_quadrs(ctx, &t, &r, dense, false, "");
        // a state obtained by deserialization must answer like the one that was serialized
        if derived_wanted(&q) {
            if let Some(d) = round_trip(ctx, &t) {
                sweep_quadrs(ctx, &d, &r, dense.min(600), false, "deserialized");
            }
            // clone_from into a value that held something else (Default, a longer and a shorter sequence of one symbol)
            for donor in donors_for(&q) {
                ctx.count("derived_states_swept");
                let d = ctx.total("clone_from", "clone_from", donor as u128, 0, 0, || {
                    derived(&t, 3, || match donor {
                        0 => X::default(),
                        1 => X::new_u8(&vec![3u8; n + 700]),
                        _ => X::new_u8(&vec![1u8; (n / 2).max(1)]),
                    })
                });
                if let Some(d) = d {
                    sweep_quadrs(ctx, &d, &r, dense.min(600), false, "clone_from");
                    ctx.obs("clone_from(x) == x", "clone_from", donor as u128, 0, 0, Exp::Is(true), || d == t);
                }
            }
        }
    }
}

fn bit_shape_counters(ctx: &mut Ctx, r: &RefBits) {
    let n = r.len();
    if n == 0 {
        ctx.count("empty_cases");
    }
    if n > 512 * 8 {
        ctx.count("cases_with_2+_narrow_blocks_of_4096_bits");
    }
    if n > 4096 * 8 {
        ctx.count("cases_over_32768_bits");
    }
    if r.ones.len() > 1024 {
        ctx.count("cases_over_1024_ones");
    }
    if r.ones.len() > 8192 {
        ctx.count("cases_over_8192_ones");
    }
    if r.zeros.len() > 8192 {
        ctx.count("cases_over_8192_zeros");
    }
    if r.ones.is_empty() && n > 0 {
        ctx.count("all_zero_cases");
    }
    if r.zeros.is_empty() && n > 0 {
        ctx.count("all_one_cases");
    }
    ctx.maxi("max_len", n as u64);
    ctx.maxi("max_ones", r.ones.len() as u64);
}

fn run_bin<X: BinRS>(ctx: &mut Ctx, gen: &BitGen, path: u8, dense: usize) {
    let bits = gen.bits();
    let r = RefBits::new(&bits);
    ctx.set_ty(X::NAME);
    ctx.note_input(&bits, !bits.is_empty());
    bit_shape_counters(ctx, &r);
    // "every bit vector B": B may have been obtained in any way the API offers
    let t = ctx.total("construct", "", path as u128, bits.len() as u64, 0, || {
        let ends_with_one = bits.last() == Some(&true);
        let bv: BitVector = match path {
            2 if ends_with_one => r.ones.iter().copied().collect(),
            3 if ends_with_one => {
                // positions repeated and out of order
                let mut messy: Vec<usize> = r.ones.iter().rev().copied().collect();
                messy.extend(r.ones.iter().copied().step_by(2));
                messy.into_iter().collect()
            }
            4 => {
                // through the mutable vector: zeros, then every one set twice (set and set_bits)
                let mut m = qwt::BitVectorMut::with_zeros(bits.len());
                for &p in &r.ones {
                    m.set(p, true);
                }
                for &p in r.ones.iter().step_by(3) {
                    m.set_bits(p, 1, 1);
                }
                m.into()
            }
            _ => bits.iter().copied().collect(),
        };
        if path % 2 == 0 {
            X::new_(bv)
        } else {
            X::from(bv)
        }
    });
    if bits.is_empty() {
        if let Some(d) = ctx.total("default", "default", 0, 0, 0, X::default) {
            sweep_binrs(ctx, &d, &r, dense, false, "default");
            ctx.count("default_states_swept");
        }
    }
    if let Some(t) = t {
        sweep_binrs(ctx, &t, &r, dense, false, "");
        if derived_wanted(&bits) {
            if let Some(d) = round_trip(ctx, &t) {
                sweep_binrs(ctx, &d, &r, dense.min(600), false, "deserialized");
            }
            let n = bits.len();
            for donor in donors_for(&bits) {
                ctx.count("derived_states_swept");
                let d = ctx.total("clone_from", "clone_from", donor as u128, 0, 0, || {
                    derived(&t, 3, || match donor {
                        0 => X::default(),
                        1 => X::new_((0..n + 1400).map(|i| i % 3 != 0).collect::<BitVector>()),
                        _ => X::new_((0..(n / 2).max(1)).map(|_| false).collect::<BitVector>()),
                    })
                });
                if let Some(d) = d {
                    sweep_binrs(ctx, &d, &r, dense.min(600), false, "clone_from");
                    ctx.obs("clone_from(x) == x", "clone_from", donor as u128, 0, 0, Exp::Is(true), || d == t);
                }
            }
        }
    }
}

fn run_darray<const S0: bool>(ctx: &mut Ctx, gen: &BitGen, path: u8, dense: usize) {
    let mut bits = gen.bits();
    if path == 2 {
        // a position list cannot express trailing zeros: the reference is the vector that ends at the last one
        while bits.last() == Some(&false) {
            bits.pop();
        }
    }
    let r = RefBits::new(&bits);
    ctx.set_ty(if S0 { "DArray<true>" } else { "DArray<false>" });
    ctx.note_input(&bits, !bits.is_empty());
    bit_shape_counters(ctx, &r);
    // group structure of ones (and zeros): dense/sparse alternation counters, from the input only
    for (name, pos) in [("ones", &r.ones), ("zeros", &r.zeros)] {
        let kinds: Vec<bool> = pos.chunks(1024).map(|c| c[c.len() - 1] - c[0] < 65536).collect();
        if kinds.windows(2).any(|w| !w[0] && w[1]) {
            ctx.count(&format!("cases_with_sparse_then_dense_group_of_{name}"));
        }
        if kinds.windows(2).any(|w| w[0] && !w[1]) {
            ctx.count(&format!("cases_with_dense_then_sparse_group_of_{name}"));
        }
        if pos.chunks(1024).any(|c| c.len() == 1024 && (c[1023] - c[0] == 65535 || c[1023] - c[0] == 65536)) {
            ctx.count(&format!("cases_with_threshold_group_of_{name}"));
        }
    }
    let t = ctx.total("construct", "", path as u128, bits.len() as u64, 0, || match path {
        0 => DArray::<S0>::new(bits.iter().copied().collect::<BitVector>()),
        1 => bits.iter().copied().collect::<DArray<S0>>(),
        _ => r.ones.iter().copied().collect::<DArray<S0>>(),
    });
    if let Some(t) = t {
        // start the position iterators on group boundaries too
        let mut extra: Vec<usize> = Vec::new();
        for j in (1024..r.ones.len()).step_by(1024) {
            extra.extend([r.ones[j] - 1, r.ones[j], r.ones[j] + 1]);
        }
        extra.truncate(24);
        let starts = with_pos_starts(r.len(), &extra);
        if bits.is_empty() {
            if let Some(d) = ctx.total("default", "default", 0, 0, 0, DArray::<S0>::default) {
                sweep_darray(ctx, &d, &r, dense, false, "default", &starts);
                ctx.count("default_states_swept");
            }
        }
        sweep_darray(ctx, &t, &r, dense, false, "", &starts);
        if derived_wanted(&bits) {
            if let Some(d) = round_trip(ctx, &t) {
                sweep_darray(ctx, &d, &r, dense.min(600), false, "deserialized", &starts);
            }
            let n = bits.len();
            for donor in donors_for(&bits) {
                ctx.count("derived_states_swept");
                let d = ctx.total("clone_from", "clone_from", donor as u128, 0, 0, || {
                    derived(&t, 3, || match donor {
                        0 => DArray::<S0>::default(),
                        1 => (0..n + 70_000).map(|i| i % 3 != 0 || i > n).collect::<DArray<S0>>(),
                        _ => (0..(n / 2).max(1)).map(|i| i % 2000 == 0).collect::<DArray<S0>>(),
                    })
                });
                if let Some(d) = d {
                    sweep_darray(ctx, &d, &r, dense.min(600), false, "clone_from", &starts);
                    ctx.obs("clone_from(x) == x", "clone_from", donor as u128, 0, 0, Exp::Is(true), || d == t);
                }
            }
        }
    }
}

fn enumerate(args: &Args) -> Vec<VCase> {
    let th = args.tier == "thorough";
    let mut v = Vec::new();
    match args.property.as_str() {
        "C05" => {
            let tys = ["RSQVector256", "RSQVector512"];
            for g in tiny_all(4, if th { 11 } else { 10 }) {
                for ty in tys {
                    // construction path rotates with the case for the tiny family; all three for the long ones
                    let p = (v.len() % 4) as u8;
                    v.push(VCase::Quad { ty: ty.into(), gen: g.clone(), path: p, dense: 8193 });
                }
            }
            // exhaustive at block granularity (blocks of 256 and of 512 symbols, constant fills): every sequence of up to 6
            // (thorough 8) blocks over the four symbols, with and without a partial block at the end, and every sequence of 7..=11
            // (thorough ..=17) blocks over two symbols - crosses the 8-block superblock, counters of 2048 and more inside one
            // superblock; for the 512 variant also the one-hot and prefix fillings of 17 blocks (two superblocks)
            for b in [256usize, 512] {
                for extra in [0usize, 1] {
                    for g in coarse_all(4, if th { 8 } else { 6 }, b, extra) {
                        for ty in tys {
                            v.push(VCase::Quad { ty: ty.into(), gen: g.clone(), path: (v.len() % 3) as u8, dense: 3 });
                        }
                    }
                }
                for g in coarse_all(2, if th { 17 } else { 11 }, b, 0) {
                    if matches!(g, Gen::CoarseTiny { len, .. } if len < 7) {
                        continue;
                    }
                    for ty in tys {
                        v.push(VCase::Quad { ty: ty.into(), gen: g.clone(), path: (v.len() % 3) as u8, dense: 3 });
                    }
                }
            }
            for j in 0..17u32 {
                for idx in [1u64 << j, (1u64 << (j + 1)) - 1, !((1u64 << j) - 1) & 0x1ffff] {
                    v.push(VCase::Quad { ty: "RSQVector512".into(), gen: Gen::CoarseTiny { k: 2, len: 17, idx, b: 512, extra: 0 }, path: (v.len() % 3) as u8, dense: 3 });
                }
            }
            let mut lens = boundary_lengths(th);
            lens.extend([1536, 1537, 1791, 1792, 1793, 3072, 3073, 3583, 3584, 3585, 6143, 6144, 6145, 12287, 12288, 12289, 24577]);
            if th {
                lens.extend([49153, 8192 * 4 * 3 + 1, 8192 * 4 * 3 + 300]);
            }
            let runs: &[usize] = if th { &[1, 127, 128, 255, 256, 257, 511, 512, 513, 2048, 4096, 8192] } else { &[128, 257, 512, 2048, 4096] };
            for &n in &lens {
                for sigma in [1u32, 2, 3, 4] {
                    let mut pats = vec![Pat::Periodic, Pat::TwoRuns, Pat::Rare(0), Pat::Rare(1), Pat::Rare(2), Pat::Blocks, Pat::DenseThenSparse];
                    for &r in runs {
                        if r < n {
                            pats.push(Pat::Runs(r));
                        }
                    }
                    if sigma == 1 {
                        pats = vec![Pat::Const(0), Pat::Const(1), Pat::Const(2), Pat::Const(3)];
                    }
                    for p in pats {
                        // Const(c) % sigma would fold to 0: use sigma 4 for the constant patterns
                        let sg = if matches!(p, Pat::Const(_)) { 4 } else { sigma };
                        for ty in tys {
                            for path in 0..4u8 {
                                if n > 20_000 && path != (v.len() % 4) as u8 {
                                    continue;
                                }
                                v.push(VCase::Quad { ty: ty.into(), gen: Gen::Boundary { n, pat: p, sigma: sg }, path, dense: if th { 8193 } else { 2049 } });
                            }
                        }
                    }
                }
            }
        }
        "C06" => {
            let tys = ["RSNarrow", "RSWide"];
            for g in tinybits_all(if th { 22 } else { 18 }) {
                for ty in tys {
                    let p = (v.len() % 5) as u8;
                    v.push(VCase::Bin { ty: ty.into(), gen: g.clone(), path: p, dense: 8193 });
                }
            }
            for &n in &bit_lengths(th) {
                for pat in bit_patterns() {
                    for ty in tys {
                        v.push(VCase::Bin { ty: ty.into(), gen: BitGen::Pat { n, pat }, path: (v.len() % 5) as u8, dense: if th { 8193 } else { 2049 } });
                    }
                }
            }
            // exhaustive at word / line granularity: every sequence of up to 8 (thorough 9) words and of up to 8 (9) lines of 512
            // bits over the fills {zeros, ones, first bit only, last bit only}, with 0 / 1 trailing bits
            for (unit, maxlen) in [(64usize, if th { 9 } else { 8 }), (512, if th { 8 } else { 6 })] {
                for extra in [0usize, 1] {
                    for g in coarse_bits_all(unit, if extra == 1 { maxlen - 2 } else { maxlen }, extra) {
                        for ty in tys {
                            v.push(VCase::Bin { ty: ty.into(), gen: g.clone(), path: (v.len() % 5) as u8, dense: if unit == 64 { 600 } else { 3 } });
                        }
                    }
                }
            }
            // the m*S-th zero (one) - where a select sample is taken, S = 1024 (RSNarrow) / 8192 (RSWide) - at a chosen
            // distance d from the end of a vector whose length is (or is not) a multiple of 64 / 512
            for s_rate in [1024usize, 8192] {
                for m in [1usize, 2] {
                    for extra in [64usize, 65, 127, 128, 512, 576] {
                        let n = m * s_rate + extra;
                        for d in [0usize, 1, 2, 62, 63, 64, 65] {
                            if d + 1 > extra {
                                continue;
                            }
                            let k = n - 1 - d - m * s_rate;
                            for first in [false, true] {
                                for ty in tys {
                                    v.push(VCase::Bin { ty: ty.into(), gen: BitGen::PrefixRun { n, k, first }, path: (v.len() % 5) as u8, dense: 600 });
                                }
                            }
                        }
                    }
                }
            }
            // exact multiples of the block sizes times 8, +-1
            for base in [4096usize, 8192, 32768, 65536] {
                for d in [0usize, 1, 2] {
                    let n = base + d - 1;
                    for pat in [BitPat::Ones, BitPat::Alt, BitPat::Runs(512), BitPat::ZeroPer(7)] {
                        for ty in tys {
                            v.push(VCase::Bin { ty: ty.into(), gen: BitGen::Pat { n, pat }, path: 0, dense: 2049 });
                        }
                    }
                }
            }
        }
        "C07" => {
            for g in tinybits_all(if th { 18 } else { 15 }) {
                for sel0 in [false, true] {
                    v.push(VCase::DArr { sel0, gen: g.clone(), path: (v.len() % 3) as u8, dense: 8193 });
                }
            }
            let kinds = [Grp::D, Grp::T1, Grp::S];
            let shapes = group_shapes(&kinds, if th { 6 } else { 4 });
            let partials: &[usize] = if th { &[0, 1, 31, 32, 33, 1023] } else { &[0, 1, 33, 1023] };
            for sh in &shapes {
                for &partial in partials {
                    for complement in [false, true] {
                        // select0 support is what the complemented shapes exercise
                        let sel0 = complement;
                        let pk = sh[sh.len() - 1];
                        v.push(VCase::DArr {
                            sel0,
                            gen: BitGen::Groups { groups: sh.clone(), partial, pk, lead: (v.len() % 3) * 37, tail: (v.len() % 2) * 70, complement },
                            path: (v.len() % 3) as u8,
                            dense: 8193,
                        });
                    }
                }
            }
            // the other threshold kinds and the spread dense kind in short shapes, all partials
            let kinds2 = [Grp::D1, Grp::T0, Grp::T2, Grp::S, Grp::D, Grp::T1E, Grp::T1S];
            for sh in group_shapes(&kinds2, if th { 3 } else { 2 }) {
                for &partial in &[0usize, 1, 32, 33, 65, 1023] {
                    for complement in [false, true] {
                        for pk in [Grp::D, Grp::T1, Grp::T2] {
                            v.push(VCase::DArr {
                                sel0: true,
                                gen: BitGen::Groups { groups: sh.clone(), partial, pk, lead: 5, tail: 3, complement },
                                path: (v.len() % 3) as u8,
                                dense: 8193,
                            });
                        }
                    }
                }
            }
            // only a partial group, every threshold span (the last partial group can be dense or sparse too)
            for partial in [1usize, 2, 32, 33, 34, 64, 65, 97, 1023] {
                for pk in [Grp::D, Grp::D1, Grp::T0, Grp::T1, Grp::T2, Grp::S, Grp::T1E, Grp::T1S] {
                    for complement in [false, true] {
                        v.push(VCase::DArr { sel0: true, gen: BitGen::Groups { groups: vec![], partial, pk, lead: 0, tail: 0, complement }, path: (v.len() % 3) as u8, dense: 8193 });
                    }
                }
            }
            // a few ones (and, complemented by construction path 1 of DArray<true>, their zeros) whose gaps sit on the 16-bit boundary
            for g in boundary_gap_lists(3) {
                v.push(VCase::DArr { sel0: v.len() % 2 == 0, gen: g, path: (v.len() % 3) as u8, dense: 300 });
            }
            for &n in &bit_lengths(false) {
                for pat in bit_patterns() {
                    v.push(VCase::DArr { sel0: true, gen: BitGen::Pat { n, pat }, path: (v.len() % 3) as u8, dense: 2049 });
                }
            }
        }
        p => panic!("mc_vectors does not serve {p}"),
    }
    v
}

fn main() {
    main_with::<VCase>(enumerate);
}
