//! C17: word-level primitives. 2^64 words cannot be enumerated; the space is decomposed along the
//! structure of the algorithms (byte sums + in-byte table; halves of a u128; digit / tag / noise fields
//! of partition keys) and every factor is enumerated exhaustively.
use mc::run::*;
use qwt::utils::{msb, popcnt_wide, select_in_word, select_in_word_u128, stable_partition_of_2, stable_partition_of_4, text_remap};
use serde::{Deserialize, Serialize};

#[derive(Debug, Clone, Serialize, Deserialize)]
enum WCase {
    /// all words with exactly `pop` set bits (complemented when `inv`); `top` = position of the highest
    /// set bit (splits the work), None = all
    Pop { pop: u32, inv: bool, #[serde(default)] top: Option<u32> },
    /// all words whose bytes come from an alphabet, first byte(s) fixed to split the work
    Bytes { alpha: Vec<u8>, first: u8, second: Option<u8> },
    /// byte position p: every byte value on 4 backgrounds
    Table { p: u32 },
    Runs,
    /// 128-bit words: all pairs of boundary words, low half index range
    U128 { from: usize, to: usize },
    Popcnt,
    Msb,
    Part { four: bool, elem: String, shift: u32 },
    Remap,
}

fn naive_select(w: u128, k: u32, notfound: u32) -> u32 {
    let mut seen = 0;
    for b in 0..128 {
        if (w >> b) & 1 == 1 {
            if seen == k {
                return b;
            }
            seen += 1;
        }
    }
    notfound
}

fn check_word(ctx: &mut Ctx, w: u64) {
    for k in 0..64u64 {
        let want = naive_select(w as u128, k as u32, 64);
        ctx.obs("select_in_word", "", w as u128, k, 0, Exp::Is(want), || select_in_word(w, k));
    }
}

fn boundary_words() -> Vec<u64> {
    let mut v: Vec<u64> = vec![0, u64::MAX, 1, 1 << 63, 0xAAAA_AAAA_AAAA_AAAA, 0x5555_5555_5555_5555, 0x8000_0000_0000_0001, 0x0101_0101_0101_0101, 0x8080_8080_8080_8080, 0xFF00_FF00_FF00_FF00, 0x00FF_00FF_00FF_00FF, 0xFFFF_FFFF_0000_0000, 0x0000_0000_FFFF_FFFF, 0xDEAD_BEEF_0BAD_F00D];
    for j in 0..64 {
        v.push(1u64 << j);
        v.push(!(1u64 << j));
        v.push(if j == 63 { u64::MAX } else { (1u64 << (j + 1)) - 1 });
    }
    for j in (0..64).step_by(8) {
        v.push(0xFFu64 << j);
        v.push(0x81u64 << j);
    }
    v.sort_unstable();
    v.dedup();
    v
}

macro_rules! part_case {
    ($ctx:expr, $t:ty, $four:expr, $shift:expr) => {{
        let ctx: &mut Ctx = $ctx;
        let bits = <$t>::BITS;
        let shift = $shift;
        let width: u32 = if $four { 2 } else { 1 };
        let ndig: u32 = 1 << width;
        let maxlen = if ctx.thorough() { 6 } else { 5 };
        for noise in 0..2u32 {
            for len in 0..=maxlen {
                for code in 0..(ndig as u64).pow(len) {
                    // element j: | high tag / noise | digit | low tag |
                    let mut x = code;
                    let mut seq: Vec<$t> = Vec::with_capacity(len as usize);
                    for j in 0..len {
                        let d = (x % ndig as u64) as $t;
                        x /= ndig as u64;
                        let mut e: $t = d.checked_shl(shift).unwrap_or(0);
                        // low tag: position, as far as it fits below the digit
                        if shift > 0 {
                            let lowmask: $t = if shift >= bits { <$t>::MAX } else { ((1 as $t) << shift) - 1 };
                            e |= ((j as $t) + 1) & lowmask;
                        }
                        // high field above the digit: a position tag, or all ones (noise)
                        if shift + width < bits {
                            let hi: $t = if noise == 1 { <$t>::MAX } else { (j as $t) * 3 + 1 };
                            e |= hi.checked_shl(shift + width).unwrap_or(0);
                        }
                        seq.push(e);
                    }
                    let key = |a: &$t| -> u32 { (a.checked_shr(shift).unwrap_or(0) & (ndig as $t - 1)) as u32 };
                    let mut want = seq.clone();
                    want.sort_by_key(key); // stable
                    let mut got = seq.clone();
                    let r = trap(|| {
                        if $four {
                            stable_partition_of_4(&mut got, shift as usize)
                        } else {
                            stable_partition_of_2(&mut got, shift as usize)
                        }
                    });
                    ctx.evals += 1;
                    let method = if $four { "stable_partition_of_4" } else { "stable_partition_of_2" };
                    match r {
                        Ok(()) => {
                            ctx.answers.insert(h64(&got));
                            if got != want {
                                ctx.violation(method, "", format!("{method}::<{}>({:?}, shift {shift})", stringify!($t), seq), format!("{want:?} (stable, grouped by the digit at the shift)"), format!("{got:?}"));
                            }
                        }
                        Err(m) => ctx.violation(method, "", format!("{method}::<{}>({:?}, shift {shift})", stringify!($t), seq), format!("{want:?}"), format!("PANIC: {m}")),
                    }
                }
            }
        }
    }};
}

impl Case for WCase {
    fn run(&self, ctx: &mut Ctx) {
        ctx.set_ty("utils");
        match self {
            WCase::Pop { pop, inv, top } => {
                // Gosper's hack over all words with the given number of bits below `top` (plus bit `top`)
                ctx.note_input(&(pop, inv, top), true);
                if *pop == 0 {
                    check_word(ctx, if *inv { u64::MAX } else { 0 });
                    return;
                }
                let (low_bits, width, fixed) = match top {
                    Some(t) => (*pop - 1, *t, 1u64 << *t),
                    None => (*pop, 64, 0),
                };
                if low_bits > width {
                    return;
                }
                if low_bits == 0 {
                    check_word(ctx, if *inv { !fixed } else { fixed });
                    ctx.count("words");
                    return;
                }
                let limit: u128 = 1u128 << width;
                let mut x: u64 = if low_bits == 64 { u64::MAX } else { (1u64 << low_bits) - 1 };
                loop {
                    let w = x | fixed;
                    check_word(ctx, if *inv { !w } else { w });
                    ctx.count("words");
                    let c = x & x.wrapping_neg();
                    let r = x.wrapping_add(c);
                    if r == 0 || c == 0 {
                        break;
                    }
                    let next = (((r ^ x) >> 2) / c) | r;
                    if next < x || (next as u128) >= limit {
                        break;
                    }
                    x = next;
                }
            }
            WCase::Bytes { alpha, first, second } => {
                ctx.note_input(&(alpha, first, second), true);
                let free = if second.is_some() { 6 } else { 7 };
                let a = alpha.len() as u64;
                for code in 0..a.pow(free) {
                    let mut x = code;
                    let mut w: u64 = *first as u64;
                    let mut pos = 1;
                    if let Some(s) = second {
                        w |= (*s as u64) << 8;
                        pos = 2;
                    }
                    for j in 0..free {
                        w |= (alpha[(x % a) as usize] as u64) << (8 * (pos + j));
                        x /= a;
                    }
                    check_word(ctx, w);
                    ctx.count("words");
                }
            }
            WCase::Table { p } => {
                ctx.note_input(p, true);
                for bg in [0u64, u64::MAX, 0xAAAA_AAAA_AAAA_AAAA, 0x5555_5555_5555_5555] {
                    for v in 0..256u64 {
                        let w = (bg & !(0xFFu64 << (8 * p))) | (v << (8 * p));
                        check_word(ctx, w);
                        ctx.count("words");
                    }
                }
            }
            WCase::Runs => {
                ctx.note_input(&"runs", true);
                for len in 1..=64u32 {
                    for start in 0..64u32 {
                        let ones = if len == 64 { u64::MAX } else { (1u64 << len) - 1 };
                        let w = ones.checked_shl(start).unwrap_or(0);
                        check_word(ctx, w);
                        check_word(ctx, ones.rotate_left(start));
                        ctx.count("words");
                    }
                }
            }
            WCase::U128 { from, to } => {
                ctx.note_input(&(from, to), true);
                let b = boundary_words();
                for &lo in &b[*from..(*to).min(b.len())] {
                    for &hi in &b {
                        let w = ((hi as u128) << 64) | lo as u128;
                        for k in 0..128u64 {
                            let want = naive_select(w, k as u32, 128);
                            ctx.obs("select_in_word_u128", if hi == 0 { "upper-half-empty" } else { "" }, w, k, 0, Exp::Is(want), || select_in_word_u128(w, k));
                        }
                        ctx.count("words128");
                    }
                }
            }
            WCase::Popcnt => {
                ctx.note_input(&"popcnt", true);
                let alpha = [0u64, u64::MAX, 1, 1 << 63, 0xA5A5_A5A5_0F0F_1234];
                for len in 0..=9u32 {
                    let a: u64 = if len > 7 { 3 } else { 5 };
                    for code in 0..a.pow(len) {
                        let mut x = code;
                        let mut d = Vec::new();
                        for _ in 0..len {
                            d.push(alpha[(x % a) as usize]);
                            x /= a;
                        }
                        let pc = |n: usize| d.iter().take(n).map(|w| w.count_ones() as usize).sum::<usize>();
                        ctx.obs("popcnt_wide::<1>", "", len as u128, code, 0, Exp::Is(pc(1)), || popcnt_wide::<1>(&d));
                        ctx.obs("popcnt_wide::<2>", "", len as u128, code, 0, Exp::Is(pc(2)), || popcnt_wide::<2>(&d));
                        ctx.obs("popcnt_wide::<4>", "", len as u128, code, 0, Exp::Is(pc(4)), || popcnt_wide::<4>(&d));
                        ctx.obs("popcnt_wide::<8>", "", len as u128, code, 0, Exp::Is(pc(8)), || popcnt_wide::<8>(&d));
                        ctx.obs("popcnt_wide::<9>", "", len as u128, code, 0, Exp::Is(pc(9)), || popcnt_wide::<9>(&d));
                        ctx.obs("popcnt_wide::<0>", "", len as u128, code, 0, Exp::Is(0), || popcnt_wide::<0>(&d));
                    }
                }
                // wide N (an accumulator packed into lanes would saturate): slices of 0..=70 words that are constant, or
                // constant with one other word at every position, over the same alphabet plus saturated byte columns
                let fills = [0u64, u64::MAX, 0x0000_0000_00FF_0000, 0xFF00_0000_0000_00FF, 0xA5A5_A5A5_0F0F_1234, 1];
                for len in [0usize, 1, 15, 16, 17, 30, 31, 32, 33, 63, 64, 65, 70] {
                    for (fi, &f) in fills.iter().enumerate() {
                        for other in [None, Some(0u64), Some(u64::MAX)] {
                            let spots: Vec<usize> = if other.is_some() { (0..len).collect() } else { vec![0] };
                            for spot in spots {
                                let mut d = vec![f; len];
                                if let Some(o) = other {
                                    d[spot] = o;
                                }
                                let pc = |n: usize| d.iter().take(n).map(|w| w.count_ones() as usize).sum::<usize>();
                                let code = (fi * 1000 + spot) as u64;
                                ctx.obs("popcnt_wide::<16>", "", len as u128, code, 0, Exp::Is(pc(16)), || popcnt_wide::<16>(&d));
                                ctx.obs("popcnt_wide::<31>", "", len as u128, code, 0, Exp::Is(pc(31)), || popcnt_wide::<31>(&d));
                                ctx.obs("popcnt_wide::<32>", "", len as u128, code, 0, Exp::Is(pc(32)), || popcnt_wide::<32>(&d));
                                ctx.obs("popcnt_wide::<33>", "", len as u128, code, 0, Exp::Is(pc(33)), || popcnt_wide::<33>(&d));
                                ctx.obs("popcnt_wide::<64>", "", len as u128, code, 0, Exp::Is(pc(64)), || popcnt_wide::<64>(&d));
                                ctx.obs("popcnt_wide::<65>", "", len as u128, code, 0, Exp::Is(pc(65)), || popcnt_wide::<65>(&d));
                                ctx.obs("popcnt_wide::<1000>", "", len as u128, code, 0, Exp::Is(pc(1000)), || popcnt_wide::<1000>(&d));
                            }
                        }
                    }
                }
            }
            WCase::Msb => {
                ctx.note_input(&"msb", true);
                fn naive(v: u128) -> u32 {
                    if v == 0 {
                        0
                    } else {
                        127 - v.leading_zeros()
                    }
                }
                for v in 0..=u8::MAX {
                    ctx.obs("msb::<u8>", "", v as u128, 0, 0, Exp::Is(naive(v as u128)), || msb(v));
                }
                for v in 0..=u16::MAX {
                    ctx.obs("msb::<u16>", "", v as u128, 0, 0, Exp::Is(naive(v as u128)), || msb(v));
                }
                macro_rules! wide {
                    ($t:ty, $name:expr) => {
                        let bits = <$t>::BITS;
                        let mut vals: Vec<$t> = vec![0, <$t>::MAX, <$t>::MAX - 1];
                        for i in 0..bits {
                            vals.push((1 as $t) << i);
                            vals.push(if i + 1 == bits { <$t>::MAX } else { ((1 as $t) << (i + 1)) - 1 });
                            for j in 0..i {
                                vals.push(((1 as $t) << i) | ((1 as $t) << j));
                            }
                        }
                        for v in vals {
                            ctx.obs($name, "", v as u128, 0, 0, Exp::Is(naive(v as u128)), || msb(v));
                        }
                    };
                }
                wide!(u32, "msb::<u32>");
                wide!(u64, "msb::<u64>");
                wide!(usize, "msb::<usize>");
                wide!(u128, "msb::<u128>");
                // signed types satisfy the PrimInt bound too: the highest set bit of the two's complement representation
                for v in i8::MIN..=i8::MAX {
                    ctx.obs("msb::<i8>", "", v as u8 as u128, 0, 0, Exp::Is(naive(v as u8 as u128)), || msb(v));
                }
                for v in i16::MIN..=i16::MAX {
                    ctx.obs("msb::<i16>", "", v as u16 as u128, 0, 0, Exp::Is(naive(v as u16 as u128)), || msb(v));
                }
                macro_rules! signed {
                    ($t:ty, $u:ty, $name:expr) => {
                        let bits = <$t>::BITS;
                        let mut vals: Vec<$t> = vec![0, 1, 5, -1, -2, <$t>::MAX, <$t>::MAX - 1, <$t>::MIN, <$t>::MIN + 1];
                        for i in 0..bits - 1 {
                            vals.push((1 as $t) << i);
                            vals.push(((1 as $t) << i) | 1);
                            vals.push(-((1 as $t) << i));
                        }
                        for v in vals {
                            ctx.obs($name, "", v as $u as u128, 0, 0, Exp::Is(naive(v as $u as u128)), || msb(v));
                        }
                    };
                }
                signed!(i32, u32, "msb::<i32>");
                signed!(i64, u64, "msb::<i64>");
                signed!(isize, usize, "msb::<isize>");
                signed!(i128, u128, "msb::<i128>");
            }
            WCase::Part { four, elem, shift } => {
                ctx.note_input(&(four, elem, shift), true);
                let (four, shift) = (*four, *shift);
                match elem.as_str() {
                    "u8" => part_case!(ctx, u8, four, shift),
                    "u16" => part_case!(ctx, u16, four, shift),
                    "u32" => part_case!(ctx, u32, four, shift),
                    "u64" => part_case!(ctx, u64, four, shift),
                    "usize" => part_case!(ctx, usize, four, shift),
                    _ => part_case!(ctx, u128, four, shift),
                }
            }
            WCase::Remap => {
                ctx.note_input(&"remap", true);
                let alpha = [0u8, 1, 7, 200, 255];
                let maxlen = if ctx.thorough() { 7 } else { 5 };
                for len in 0..=maxlen as u32 {
                    for code in 0..5u64.pow(len) {
                        let mut x = code;
                        let s: Vec<u8> = (0..len)
                            .map(|_| {
                                let v = alpha[(x % 5) as usize];
                                x /= 5;
                                v
                            })
                            .collect();
                        let mut distinct: Vec<u8> = s.clone();
                        distinct.sort_unstable();
                        distinct.dedup();
                        let want: Vec<u8> = s.iter().map(|c| distinct.binary_search(c).unwrap() as u8).collect();
                        let mut got = s.clone();
                        let d = ctx.obs("text_remap", "", len as u128, code, 0, Exp::Is(distinct.len()), || text_remap(&mut got));
                        if d.is_some() && got != want {
                            ctx.violation("text_remap", "", format!("text_remap({s:?})"), format!("{want:?}"), format!("{got:?}"));
                        }
                    }
                }
                // long texts: every alphabet size up to the full 256 byte values, several orders, with repeats
                let mut texts: Vec<Vec<u8>> = Vec::new();
                for missing in [None, Some(0u8), Some(255), Some(7), Some(128)] {
                    let all: Vec<u8> = (0..=255u8).filter(|b| Some(*b) != missing).collect();
                    texts.push(all.clone());
                    texts.push(all.iter().rev().copied().collect());
                    texts.push(all.iter().map(|&b| b.wrapping_mul(37).wrapping_add(11)).filter(|b| Some(*b) != missing).collect());
                    let mut twice = all.clone();
                    twice.extend(all.iter().rev());
                    texts.push(twice);
                }
                for k in [1usize, 2, 100, 200, 254, 255] {
                    texts.push((0..k as u32 * 3).map(|i| ((i * 7) % k as u32) as u8 ^ 0x80).collect());
                }
                for (j, s) in texts.iter().enumerate() {
                    let mut distinct: Vec<u8> = s.clone();
                    distinct.sort_unstable();
                    distinct.dedup();
                    let want: Vec<u8> = s.iter().map(|c| distinct.binary_search(c).unwrap() as u8).collect();
                    let mut got = s.clone();
                    let d = ctx.obs("text_remap", "long-text", s.len() as u128, j as u64, 0, Exp::Is(distinct.len()), || text_remap(&mut got));
                    if d.is_some() && got != want {
                        ctx.violation("text_remap", "long-text", format!("text_remap(text #{j} of {} bytes, {} distinct)", s.len(), distinct.len()), "order-preserving ranks".into(), "a different mapping".into());
                    }
                }
            }
        }
    }
    fn weight(&self) -> u64 {
        match self {
            // number of words of the case times 64 selects
            WCase::Pop { pop, top: Some(t), .. } => {
                let mut c: u128 = 1;
                for j in 0..(*pop - 1) as u128 {
                    c = c * (*t as u128 - j) / (j + 1);
                }
                (c as u64).saturating_mul(64).max(1000)
            }
            WCase::Bytes { alpha, .. } => (alpha.len() as u64).pow(6) * 64,
            _ => 10_000_000,
        }
    }
}

fn enumerate(args: &Args) -> Vec<WCase> {
    let th = args.tier == "thorough";
    let mut v = Vec::new();
    for pop in 0..=(if th { 6 } else { 5 }) {
        for inv in [false, true] {
            if pop < 3 {
                v.push(WCase::Pop { pop, inv, top: None });
            } else {
                for top in (pop - 1)..64 {
                    v.push(WCase::Pop { pop, inv, top: Some(top) });
                }
            }
        }
    }
    if th {
        let alpha = vec![0x00u8, 0xFF, 0x01, 0x80, 0xA5, 0x7E, 0x10];
        for &f in &alpha {
            for &s in &alpha {
                v.push(WCase::Bytes { alpha: alpha.clone(), first: f, second: Some(s) });
            }
        }
    } else {
        let alpha = vec![0x00u8, 0xFF, 0x01, 0x80, 0xA5];
        for &f in &alpha {
            for &s in &alpha {
                v.push(WCase::Bytes { alpha: alpha.clone(), first: f, second: Some(s) });
            }
        }
    }
    for p in 0..8 {
        v.push(WCase::Table { p });
    }
    v.push(WCase::Runs);
    let nb = boundary_words().len();
    for from in (0..nb).step_by(8) {
        v.push(WCase::U128 { from, to: from + 8 });
    }
    v.push(WCase::Popcnt);
    v.push(WCase::Msb);
    for (elem, bits) in [("u8", 8u32), ("u16", 16), ("u32", 32), ("u64", 64), ("usize", 64), ("u128", 128)] {
        for shift in 0..bits {
            v.push(WCase::Part { four: true, elem: elem.into(), shift });
            v.push(WCase::Part { four: false, elem: elem.into(), shift });
        }
    }
    v.push(WCase::Remap);
    v
}

fn main() {
    main_with::<WCase>(enumerate);
}
