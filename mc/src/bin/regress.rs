//! Plain replays (no explorer) of the smallest failing case of every defect that the explorers
//! found on the pinned tree. `regress` runs every case in a child process (some of them used to
//! die with SIGSEGV) and prints one line per case; `regress <k>` runs case k in-process.
//! Exit 0 = every case behaves as the property demands, 1 = at least one does not.
use qwt::*;
use std::process::Command;

type Case = (&'static str, fn() -> Result<(), String>);

fn expect<T: PartialEq + std::fmt::Debug>(what: &str, got: T, want: T) -> Result<(), String> {
    if got == want {
        Ok(())
    } else {
        Err(format!("{what}: got {got:?}, want {want:?}"))
    }
}

fn d01() -> Result<(), String> {
    let t = QWT256::<u8>::new(&mut []);
    expect("empty QWT256 select(0,5)", t.select(0, 5), None)?;
    expect("empty QWT256 rank(0,0)", t.rank(0, 0).unwrap_or(0), 0)?;
    expect("empty QWT256 get(0)", t.get(0), None)?;
    let t = QWT512Pfs::<u16>::default();
    expect("default QWT512Pfs select(0,0)", t.select(0, 0), None)?;
    expect("default QWT512Pfs rank(0,0)", t.rank(0, 0).unwrap_or(0), 0)?;
    expect("default rank_prefetch(0,0)", t.rank_prefetch(0, 0).unwrap_or(0), 0)
}
fn d02() -> Result<(), String> {
    let t = QWT256::from(vec![3u8, 7]);
    expect("QWT select(7,MAX)", t.select(7, usize::MAX), None)?;
    let t = WT::from(vec![3u8, 7, 3, 7]);
    expect("WT select(7,MAX)", t.select(7, usize::MAX), None)?;
    let t = HQWT256::from(vec![1u8, 2, 1, 7]);
    expect("HQWT select(1,MAX)", t.select(1, usize::MAX), None)?;
    let t = WT::from(vec![1u8, 2, 1, 7]);
    expect("WT select(1,MAX)", t.select(1, usize::MAX), None)?;
    let t = HWT::from(vec![1u8, 2, 1, 7]);
    expect("HWT select(1,MAX)", t.select(1, usize::MAX), None)
}
fn d03() -> Result<(), String> {
    let v = vec![1u128 << 64, 5, (1u128 << 64) + 3, 5];
    let t = QWT256::from(v.clone());
    for (i, &x) in v.iter().enumerate() {
        expect("QWT<u128> get", t.get(i), Some(x))?;
    }
    expect("QWT<u128> rank", t.rank(5, 4), Some(2))
}
fn d04() -> Result<(), String> {
    let v = vec![1u64 << 40, 5];
    let t = WT::from(v.clone());
    expect("WT<u64> get(0)", t.get(0), Some(1 << 40))?;
    expect("WT<u64> rank", t.rank(1 << 40, 2), Some(1))?;
    expect("WT<u64> select", t.select(1 << 40, 0), Some(0))
}
fn d05() -> Result<(), String> {
    let t = WT::from(vec![0u8, 1, 2, 3]);
    expect("WT select(4,0)", t.select(4, 0), None)
}
fn d06() -> Result<(), String> {
    let t = WT::<u8>::new(&mut []);
    expect("empty WT select(0,3)", t.select(0, 3), None)?;
    expect("empty WT rank(0,0)", t.rank(0, 0).unwrap_or(0), 0)?;
    let t = HWT::<u8>::new(&mut []);
    expect("empty HWT select(0,3)", t.select(0, 3), None)?;
    expect("empty HWT rank(0,0)", t.rank(0, 0).unwrap_or(0), 0)
}
fn d07() -> Result<(), String> {
    let t = HWT::from(vec![0u8, 1, 2, 3]);
    expect("HWT select(4,0)", t.select(4, 0), None)
}
fn d08() -> Result<(), String> {
    let t = HWT::from(vec![3u8; 10]);
    expect("HWT single symbol get", t.get(4), Some(3))?;
    expect("HWT single symbol rank", t.rank(3, 10), Some(10))?;
    expect("HWT single symbol select", t.select(3, 9), Some(9))
}
fn d09() -> Result<(), String> {
    let t = HQWT256::from(vec![1u128, 5, 7, 1, 5]);
    expect("HQWT<u128> rank(2^64+1,4)", t.rank((1u128 << 64) + 1, 4), None)?;
    expect("HQWT<u128> select(2^64+1,0)", t.select((1u128 << 64) + 1, 0), None)?;
    let t = HWT::from(vec![1u128, 5, 7, 1, 5]);
    expect("HWT<u128> rank(2^64+1,4)", t.rank((1u128 << 64) + 1, 4), None)?;
    expect("HWT<u128> select(2^64+1,0)", t.select((1u128 << 64) + 1, 0), None)
}
fn d11() -> Result<(), String> {
    let v: RSQVector256 = (0..100u32).map(|x| x % 4).collect();
    expect("RSQVector rank(4,3)", v.rank(4, 3), None)?;
    expect("RSQVector rank(255,0)", v.rank(255, 0), None)
}
fn d12() -> Result<(), String> {
    let v = RSQVector256::default();
    expect("default RSQVector256 rank(0,0)", v.rank(0, 0).unwrap_or(0), 0)?;
    expect("default RSQVector256 select(0,0)", v.select(0, 0), None)?;
    let v = RSQVector512::default();
    expect("default RSQVector512 rank(3,0)", v.rank(3, 0).unwrap_or(0), 0)
}
fn d13() -> Result<(), String> {
    let v: RSQVector256 = (0..100u32).map(|x| x % 4).collect();
    expect("select_unchecked(0,0)", unsafe { v.select_unchecked(0, 0) }, 0)?;
    expect("select_unchecked(3,24)", unsafe { v.select_unchecked(3, 24) }, 99)
}
fn d14() -> Result<(), String> {
    let r = RSNarrow::new(BitVector::default());
    expect("empty RSNarrow select1(0)", r.select1(0), None)?;
    expect("empty RSNarrow select0(0)", r.select0(0), None)?;
    expect("empty RSNarrow n_ones", r.n_ones(), 0)?;
    let r = RSNarrow::default();
    expect("default RSNarrow select1(0)", r.select1(0), None)
}
fn d15() -> Result<(), String> {
    // one sparse group (1024 ones, 70 bits apart) followed by one dense group
    let mut pos: Vec<usize> = (0..1024).map(|i| i * 70).collect();
    let base = 1023 * 70 + 70;
    pos.extend((0..1024).map(|i| base + i));
    let da: DArray<false> = pos.iter().copied().collect();
    for k in [1024usize, 1025, 1056, 2047] {
        expect("DArray sparse-then-dense select1", da.select1(k), Some(pos[k]))?;
    }
    Ok(())
}
fn d16() -> Result<(), String> {
    let d = DArray::<true>::default();
    expect("DArray<true>::default select0(0)", d.select0(0), None)
}
fn d17() -> Result<(), String> {
    let mut b = BitVectorMut::with_zeros(8);
    b.set_bits(0, 4, 15);
    b.set_bits(0, 4, 15);
    expect("set_bits twice count_ones", b.count_ones(), 4)?;
    b.set_bits(2, 4, 0);
    expect("set_bits clear count_ones", b.count_ones(), 2)
}
fn d19() -> Result<(), String> {
    let b: BitVector = [true, false, true].into_iter().collect();
    expect("BitVector get_bits(MAX,1)", b.get_bits(usize::MAX, 1), None)?;
    let b: BitVectorMut = [true, false, true].into_iter().collect();
    expect("BitVectorMut get_bits(MAX,1)", b.get_bits(usize::MAX, 1), None)
}
fn d20() -> Result<(), String> {
    let b: BitVector = [true, false].into_iter().collect();
    let mut it = b.into_iter();
    it.next();
    it.next();
    expect("exhausted 1", it.next(), None)?;
    expect("len after exhaustion", it.len(), 0)?;
    expect("exhausted 2", it.next(), None)?;
    expect("len after exhaustion 2", it.len(), 0)
}

const CASES: &[Case] = &[
    ("D01 empty/default QWaveletTree queries", d01),
    ("D02 select(c, usize::MAX) on the four trees", d02),
    ("D03 QWT<u128> values >= 2^64", d03),
    ("D04 WT<u64> values >= 2^32", d04),
    ("D05 WT select of a symbol above sigma", d05),
    ("D06 empty WT/HWT queries", d06),
    ("D07 HWT select of a symbol above the table", d07),
    ("D08 HWT over one distinct symbol", d08),
    ("D09 Huffman trees and u128 symbols >= 2^64", d09),
    ("D11 RSQVector rank with symbol > 3", d11),
    ("D12 RSQVector::default queries", d12),
    ("D13 RSQVector select_unchecked debug assertions", d13),
    ("D14 empty RSNarrow select / n_ones", d14),
    ("D15 DArray sparse group followed by dense group", d15),
    ("D16 DArray<true>::default select0", d16),
    ("D17 BitVectorMut set_bits bookkeeping of ones", d17),
    ("D19 get_bits index+len overflow", d19),
    ("D20 BitVectorIntoIter after exhaustion", d20),
];

fn main() {
    let args: Vec<String> = std::env::args().collect();
    if args.len() == 2 {
        let k: usize = args[1].parse().unwrap();
        match std::panic::catch_unwind(CASES[k].1) {
            Ok(Ok(())) => println!("ok"),
            Ok(Err(e)) => {
                println!("WRONG {e}");
                std::process::exit(1)
            }
            Err(p) => {
                let m = p
                    .downcast_ref::<String>()
                    .cloned()
                    .or_else(|| p.downcast_ref::<&str>().map(|s| s.to_string()))
                    .unwrap_or_default();
                println!("PANIC {m}");
                std::process::exit(1)
            }
        }
        return;
    }
    let exe = std::env::current_exe().unwrap();
    let mut bad = 0;
    for (k, (name, _)) in CASES.iter().enumerate() {
        let out = Command::new(&exe).arg(k.to_string()).output().unwrap();
        let so = String::from_utf8_lossy(&out.stdout);
        let verdict = if out.status.success() {
            "ok".to_string()
        } else {
            bad += 1;
            match out.status.code() {
                Some(_) => so.lines().last().unwrap_or("?").to_string(),
                None => format!("KILLED {:?}", out.status),
            }
        };
        println!("{name}: {verdict}");
    }
    println!("regress: {} cases, {} failing", CASES.len(), bad);
    std::process::exit(if bad == 0 { 0 } else { 1 });
}
