//! Space explorers (E1 + counting allocator): C14 stated overhead of the plain structures, C15 entropy
//! bound of the Huffman-shaped trees, C16 space_usage_byte() vs memory actually retained.
use mc::gens::*;
use mc::refm::bitlen;
use mc::run::*;
use mc::trees::*;
use mc::vecs::*;
use mc::with_tree;
use qwt::{BitVector, BitVectorMut, DArray, QVector, RSNarrow, RSQVector256, RSQVector512, RSWide, SpaceUsage};
use serde::{Deserialize, Serialize};
use std::alloc::{GlobalAlloc, Layout, System};
use std::collections::BTreeMap;
use std::sync::atomic::{AtomicIsize, Ordering::Relaxed};

/// Counts the bytes requested from the allocator and not yet returned (children are single threaded).
struct Counting;
static LIVE: AtomicIsize = AtomicIsize::new(0);
unsafe impl GlobalAlloc for Counting {
    unsafe fn alloc(&self, l: Layout) -> *mut u8 {
        LIVE.fetch_add(l.size() as isize, Relaxed);
        System.alloc(l)
    }
    unsafe fn dealloc(&self, p: *mut u8, l: Layout) {
        LIVE.fetch_sub(l.size() as isize, Relaxed);
        System.dealloc(p, l)
    }
    unsafe fn alloc_zeroed(&self, l: Layout) -> *mut u8 {
        LIVE.fetch_add(l.size() as isize, Relaxed);
        System.alloc_zeroed(l)
    }
    unsafe fn realloc(&self, p: *mut u8, l: Layout, new: usize) -> *mut u8 {
        LIVE.fetch_add(new as isize - l.size() as isize, Relaxed);
        System.realloc(p, l, new)
    }
}
#[global_allocator]
static ALLOC: Counting = Counting;

/// Builds a value and returns it with the heap bytes it keeps alive (temporaries of the construction
/// are created and freed inside the window).
fn measured<V>(f: impl FnOnce() -> V) -> (V, usize) {
    let before = LIVE.load(Relaxed);
    let v = f();
    let after = LIVE.load(Relaxed);
    (v, (after - before).max(0) as usize)
}

#[derive(Debug, Clone, Serialize, Deserialize)]
enum SpCase {
    Tree { alias: String, elem: String, gen: Gen, vmap: String },
    Quad { ty: String, gen: Gen },
    Bin { ty: String, gen: BitGen },
    DArr { sel0: bool, gen: BitGen },
    Bits { gen: BitGen },
    /// construction history: `first` is built (and dropped) before `second` is built and measured
    TreeAfter { alias: String, elem: String, first: Gen, second: Gen, vmap: String },
    /// the generic container impls of SpaceUsage (Box<[T]>, Vec<T>, primitives)
    Containers { k: u8 },
}

impl Case for SpCase {
    fn run(&self, ctx: &mut Ctx) {
        let prop = ctx.property.clone();
        match self {
            SpCase::Tree { alias, elem, gen, vmap } => with_tree!(alias.as_str(), elem.as_str(), run_tree(ctx, &prop, gen, vmap)),
            SpCase::Quad { ty, gen } => match ty.as_str() {
                "RSQVector256" => run_quad::<RSQVector256>(ctx, &prop, gen),
                "RSQVector512" => run_quad::<RSQVector512>(ctx, &prop, gen),
                _ => run_qvector(ctx, &prop, gen),
            },
            SpCase::Bin { ty, gen } => match ty.as_str() {
                "RSNarrow" => run_bin::<RSNarrow>(ctx, &prop, gen),
                _ => run_bin::<RSWide>(ctx, &prop, gen),
            },
            SpCase::DArr { sel0, gen } => {
                if *sel0 {
                    run_darr::<true>(ctx, &prop, gen)
                } else {
                    run_darr::<false>(ctx, &prop, gen)
                }
            }
            SpCase::Bits { gen } => run_bits(ctx, &prop, gen),
            SpCase::TreeAfter { alias, elem, first, second, vmap } => with_tree!(alias.as_str(), elem.as_str(), run_tree_after(ctx, &prop, first, second, vmap)),
            SpCase::Containers { k } => run_containers(ctx, *k),
        }
    }
    fn weight(&self) -> u64 {
        match self {
            SpCase::Tree { gen, .. } => gen.approx_len() * 200,
            SpCase::Quad { gen, .. } => gen.approx_len() * 8,
            SpCase::Bin { gen, .. } | SpCase::DArr { gen, .. } | SpCase::Bits { gen } => gen.approx_len() * 4,
            SpCase::TreeAfter { first, second, .. } => (first.approx_len() + second.approx_len()) * 200,
            SpCase::Containers { .. } => 5_000_000,
        }
    }
}

fn check_le(ctx: &mut Ctx, method: &'static str, what: String, got: f64, bound: f64) {
    ctx.evals += 1;
    ctx.answers.insert(h64(&(method, got as u64)));
    ctx.maxi(&format!("max_permille_of_bound[{method}]"), (1000.0 * got / bound.max(1.0)).max(0.0) as u64);
    if std::env::var("MC_SPACE_DEBUG").is_ok() && got > 0.93 * bound {
        eprintln!("NEAR {} {} {:.0}/{:.0} = {:.3}", ctx.ty, what, got, bound, got / bound);
    }
    if got > bound {
        ctx.violation(method, "", what, format!("<= {:.0}", bound), format!("{:.0} ({:.3} x the bound)", got, got / bound.max(1.0)));
    }
}

/// C16 oracle for one value.
fn check_reported<V: SpaceUsage>(ctx: &mut Ctx, v: &V, heap: usize, components: usize, extra_slack: usize, what: &str) {
    let real = heap + std::mem::size_of_val(v);
    let rep = v.space_usage_byte();
    let tol = 0.02 * heap as f64 + 256.0 * components as f64 + 512.0 + extra_slack as f64;
    ctx.evals += 1;
    ctx.answers.insert(h64(&("space_usage_byte", rep)));
    ctx.maxi("max_permille_of_tolerance[space_usage_byte]", (1000.0 * (rep as f64 - real as f64).abs() / tol) as u64);
    if heap > 100_000 {
        ctx.maxi("max_relative_error_ppm_on_large_values", (1e6 * (rep as f64 - real as f64).abs() / real as f64) as u64);
    }
    if (rep as f64 - real as f64).abs() > tol {
        ctx.violation(
            "space_usage_byte",
            "",
            format!("space_usage_byte() of {what}"),
            format!("{real} bytes retained (heap {heap} + value {}) +- {:.0}", std::mem::size_of_val(v), tol),
            format!("{rep} ({:+.1}%)", 100.0 * (rep as f64 - real as f64) / real.max(1) as f64),
        );
    }
    let b = rep as f64;
    ctx.obs("space_usage_KiB", "", 0, 0, 0, Exp::Is((b / 1024.0).to_bits()), || v.space_usage_KiB().to_bits());
    ctx.obs("space_usage_MiB", "", 0, 0, 0, Exp::Is((b / (1024.0 * 1024.0)).to_bits()), || v.space_usage_MiB().to_bits());
    ctx.obs("space_usage_GiB", "", 0, 0, 0, Exp::Is((b / (1024.0 * 1024.0 * 1024.0)).to_bits()), || v.space_usage_GiB().to_bits());
}

fn tree_values<T: Elem>(gen: &Gen, vm: &str) -> Vec<T> {
    let a = gen.abstract_seq();
    let sigma = a.iter().copied().max().map_or(0, |m| m + 1);
    a.iter().map(|&s| T::from_u128(vmap(vm, T::BITS, s, sigma))).collect()
}

fn build_measured<X: Tree>(vals: &[X::T], path: u8) -> (X, usize) {
    if X::HUFF {
        qwt::verif_hooks::set_tie_script(Some(vec![]));
    }
    let r = measured(|| {
        let t = match path {
            0 => {
                let mut v = vals.to_vec();
                X::new_(&mut v)
            }
            1 => X::from_vec(vals.to_vec()),
            2 => X::collect_(vals.to_vec()),
            // iterators whose size hint is unknown / a loose upper bound / a loose lower bound
            k => X::collect_hinted(vals.to_vec(), k - 2),
        };
        let _ = qwt::verif_hooks::take_tie_report();
        t
    });
    qwt::verif_hooks::set_tie_script(None);
    r
}

/// (H0 in bits per symbol, max code length in levels, distinct symbols)
fn entropy_and_depth<T: Elem>(vals: &[T], quad: bool) -> (f64, usize, usize) {
    use minimum_redundancy::{BitsPerFragment, Coding};
    let mut f: BTreeMap<u128, usize> = BTreeMap::new();
    for v in vals {
        *f.entry(v.to_u128()).or_insert(0) += 1;
    }
    let n = vals.len() as f64;
    let h0: f64 = f.values().map(|&c| -(c as f64 / n) * (c as f64 / n).log2()).sum();
    let distinct = f.len();
    let depth = if f.is_empty() { 0 } else { *Coding::from_frequencies(BitsPerFragment(if quad { 2 } else { 1 }), f).code_lengths().values().max().unwrap() as usize };
    (h0, depth, distinct)
}

const C_LEVEL: f64 = 2048.0; // bytes of constant overhead granted per level
const C0: f64 = 512.0;

fn run_tree<X: Tree>(ctx: &mut Ctx, prop: &str, gen: &Gen, vm: &str) {
    let vals: Vec<X::T> = tree_values(gen, vm);
    ctx.set_ty(&X::name());
    ctx.note_input(&vals, vals.len() > 1000);
    let n = vals.len() as f64;
    let m = vals.iter().copied().max().map_or(0, |x| x.to_u128());
    ctx.maxi("max_len", vals.len() as u64);
    let block = if X::ALIAS.contains("512") { 512.0 } else { 256.0 };
    let r = if X::QUAD { 32.0 / block } else { 0.05 } + if X::PFS { 0.01 } else { 0.0 };
    match prop {
        "C14" => {
            if X::HUFF {
                return;
            }
            let bl = bitlen(m) as f64;
            let levels = if X::QUAD { (bl / 2.0).ceil().max(1.0) } else { bl.max(1.0) };
            let bits_per_level = if X::QUAD { 2.0 } else { 1.0 };
            let bound = (1.0 + r + 0.01) * bits_per_level * n * levels + 8.0 * (C_LEVEL * levels + C0);
            for path in 0..6u8 {
                let (t, heap) = build_measured::<X>(&vals, path);
                let bits = 8.0 * (heap + std::mem::size_of_val(&t)) as f64;
                check_le(ctx, "retained bits", format!("construction path {path}: n={} max={} levels={}", vals.len(), m, levels), bits, bound);
                if vals.len() >= 65536 {
                    ctx.count("large_cases");
                }
                if path == 1 {
                    // copies: a deserialized value and a clone keep no more than the bound either
                    let bytes = bincode::serialize(&t).unwrap();
                    let (d, dheap) = measured(|| bincode::deserialize::<X>(&bytes).unwrap());
                    check_le(ctx, "retained bits", format!("deserialized copy: n={} max={} levels={}", vals.len(), m, levels), 8.0 * (dheap + std::mem::size_of_val(&d)) as f64, bound);
                    let (c, cheap) = measured(|| t.clone());
                    check_le(ctx, "retained bits", format!("clone: n={} max={} levels={}", vals.len(), m, levels), 8.0 * (cheap + std::mem::size_of_val(&c)) as f64, bound);
                }
            }
        }
        "C15" => {
            if !X::HUFF || vals.is_empty() {
                return;
            }
            let (h0, depth, distinct) = entropy_and_depth(&vals, X::QUAD);
            let slack = if X::QUAD { 2.0 } else { 1.0 };
            let table = 10.0 * (m as f64 + 1.0) + 40.0 * distinct as f64 + 4096.0;
            let lv = depth.max(1) as f64;
            let bound = (1.0 + r + 0.01) * n * (h0 + slack) + 8.0 * (C_LEVEL * lv + table);
            let (t, heap) = build_measured::<X>(&vals, 1);
            let bits = 8.0 * (heap + std::mem::size_of_val(&t)) as f64;
            check_le(ctx, "retained bits", format!("n={} H0={:.3} distinct={} max={} depth={}", vals.len(), h0, distinct, m, depth), bits, bound);
            // the level data itself (the sizes of the levels are in the serialized form under the name `lens`): at most
            // n*(H0+slack) bits, and never more than the plain tree's n * bits-per-level * levels
            {
                let lens: Option<Vec<u64>> = mc::fieldprobe::u64_seq_field(&t, "lens");
                match lens {
                    Some(l) => {
                        let level_bits = l.iter().sum::<u64>() as f64 * if X::QUAD { 2.0 } else { 1.0 };
                        ctx.count("level_data_measured");
                        check_le(ctx, "level data bits vs n*(H0+slack)", format!("n={} H0={:.4} distinct={} max={} level sizes {:?}", vals.len(), h0, distinct, m, l), level_bits, n * (h0 + slack) + 1e-6 * n + 1.0);
                        let blm = bitlen(m) as f64;
                        let plain_bits = n * if X::QUAD { 2.0 * (blm / 2.0).ceil().max(1.0) } else { blm.max(1.0) };
                        check_le(ctx, "level data bits vs plain tree", format!("n={} distinct={} max={} level sizes {:?}", vals.len(), distinct, m, l), level_bits, plain_bits);
                    }
                    None => ctx.count("level_sizes_not_in_serialized_form"),
                }
            }
            // never more level data than the plain tree over the same sequence
            fn plain_heap<P: Tree>(v: &[u128]) -> usize {
                let vals: Vec<P::T> = v.iter().map(|&x| P::T::from_u128(x)).collect();
                build_measured::<P>(&vals, 1).1
            }
            let v128: Vec<u128> = vals.iter().map(|x| x.to_u128()).collect();
            let plain_alias = &X::ALIAS[1..]; // HQWT256 -> QWT256, HWT -> WT
            let e = <X::T as Elem>::NAME;
            let ph = with_tree!(plain_alias, e, plain_heap(&v128));
            let lhs = heap as f64 - table;
            let bl = bitlen(m) as f64;
            let plevels = if X::QUAD { (bl / 2.0).ceil().max(1.0) } else { bl.max(1.0) };
            check_le(ctx, "Huffman heap minus tables vs plain tree", format!("n={} H0={:.3} distinct={} plain heap={}", vals.len(), h0, distinct, ph), lhs, ph as f64 * 1.01 + C_LEVEL * plevels);
            if h0 + 0.5 < bl {
                ctx.count("cases_with_entropy_well_below_log_sigma");
            }
            if distinct == 1 {
                ctx.count("cases_with_one_distinct_symbol");
            }
        }
        "C16" => {
            let (_, depth, distinct) = entropy_and_depth(&vals, X::QUAD);
            let bl = bitlen(m) as usize;
            let levels = if X::HUFF { depth } else if X::QUAD { (bl + 1) / 2 } else { bl }.max(1);
            let comps = levels * if X::PFS { 6 } else { 1 } + 2;
            let slack = if X::HUFF { 8 * (m as usize + 1) + 40 * distinct + 2304 } else { 0 };
            for path in [1u8, 2] {
                let (t, heap) = build_measured::<X>(&vals, path);
                check_reported(ctx, &t, heap, comps, slack, &format!("{} (n={}, max={}, path {})", X::name(), vals.len(), m, path));
                if path == 1 {
                    let bytes = bincode::serialize(&t).unwrap();
                    let (d, dheap) = measured(|| bincode::deserialize::<X>(&bytes).unwrap());
                    check_reported(ctx, &d, dheap, comps, slack, &format!("deserialized {} (n={}, max={})", X::name(), vals.len(), m));
                    let (c, cheap) = measured(|| t.clone());
                    check_reported(ctx, &c, cheap, comps, slack, &format!("clone of {} (n={}, max={})", X::name(), vals.len(), m));
                }
            }
        }
        p => panic!("{p}"),
    }
}

/// C15 after a construction history: the bound must hold for a tree no matter which tree was built before
/// it on the same thread (a cache keyed too coarsely would hand the second tree the first one's code).
fn run_tree_after<X: Tree>(ctx: &mut Ctx, prop: &str, first: &Gen, second: &Gen, vm: &str) {
    if prop != "C15" || !X::HUFF {
        return;
    }
    let v1: Vec<X::T> = tree_values(first, vm);
    {
        let (_t, _) = build_measured::<X>(&v1, 1);
    }
    ctx.count("construction_histories");
    run_tree::<X>(ctx, prop, second, vm);
}

fn run_containers(ctx: &mut Ctx, k: u8) {
    use qwt::QWT256;
    ctx.set_ty("SpaceUsage containers");
    ctx.note_input(&k, true);
    let chunks = [1_000usize, 400_000, 250_000, 800_000, 30_000, 0, 7];
    match k {
        0 => {
            let (v, heap) = measured(|| chunks.iter().map(|&n| (0..n).map(|i| i % 3 == 0).collect::<BitVector>()).collect::<Vec<_>>().into_boxed_slice());
            check_reported(ctx, &v, heap, chunks.len() + 1, 0, "Box<[BitVector]> with chunks of very different sizes");
        }
        1 => {
            let (v, heap) = measured(|| chunks.iter().rev().map(|&n| RSQVector256::new(&(0..n / 4).map(|i| (i % 4) as u8).collect::<Vec<u8>>())).collect::<Vec<_>>().into_boxed_slice());
            check_reported(ctx, &v, heap, 4 * chunks.len() + 1, 0, "Box<[RSQVector256]> with chunks of very different sizes");
        }
        2 => {
            let (v, heap) = measured(|| [10usize, 50_000, 3, 120_000].iter().map(|&n| QWT256::from((0..n).map(|i| (i % 200) as u8).collect::<Vec<u8>>())).collect::<Vec<_>>().into_boxed_slice());
            check_reported(ctx, &v, heap, 40, 0, "Box<[QWT256<u8>]> with trees of very different sizes");
        }
        3 => {
            for n in [0usize, 1, 1000, 100_000] {
                let (v, heap) = measured(|| (0..n as u64).collect::<Vec<u64>>().into_boxed_slice());
                check_reported(ctx, &v, heap, 1, 0, &format!("Box<[u64]> of {n}"));
                let (v, heap) = measured(|| (0..n).map(|i| i as u8).collect::<Vec<u8>>().into_boxed_slice());
                check_reported(ctx, &v, heap, 1, 0, &format!("Box<[u8]> of {n}"));
                let (v, heap) = measured(|| (0..n).map(|i| i as u128).collect::<Vec<u128>>().into_boxed_slice());
                check_reported(ctx, &v, heap, 1, 0, &format!("Box<[u128]> of {n}"));
            }
        }
        4 => {
            for (cap, len) in [(0usize, 0usize), (100_000, 0), (100_000, 1), (100_000, 60_000), (1000, 1000), (7, 3)] {
                let (v, heap) = measured(|| {
                    let mut v: Vec<u64> = Vec::with_capacity(cap);
                    v.extend(0..len as u64);
                    v
                });
                check_reported(ctx, &v, heap, 1, 0, &format!("Vec<u64> with capacity {cap} and {len} elements"));
                let (v, heap) = measured(|| {
                    let mut v: Vec<u16> = Vec::with_capacity(cap);
                    v.extend((0..len).map(|i| i as u16));
                    v
                });
                check_reported(ctx, &v, heap, 1, 0, &format!("Vec<u16> with capacity {cap} and {len} elements"));
            }
        }
        _ => {
            ctx.obs("u8::space_usage_byte", "", 0, 0, 0, Exp::Is(1), || 7u8.space_usage_byte());
            ctx.obs("u64::space_usage_byte", "", 0, 0, 0, Exp::Is(8), || 7u64.space_usage_byte());
            ctx.obs("u128::space_usage_byte", "", 0, 0, 0, Exp::Is(16), || 7u128.space_usage_byte());
            ctx.obs("bool::space_usage_byte", "", 0, 0, 0, Exp::Is(1), || true.space_usage_byte());
            ctx.obs("f64::space_usage_byte", "", 0, 0, 0, Exp::Is(8), || 1.5f64.space_usage_byte());
            ctx.obs("usize::space_usage_KiB", "", 0, 0, 0, Exp::Is((8.0f64 / 1024.0).to_bits()), || 7usize.space_usage_KiB().to_bits());
        }
    }
}

fn run_quad<X: QuadRS>(ctx: &mut Ctx, prop: &str, gen: &Gen) {
    let q: Vec<u8> = gen.abstract_seq().iter().map(|&s| (s % 4) as u8).collect();
    ctx.set_ty(X::NAME);
    ctx.note_input(&q, q.len() > 1000);
    let n = q.len() as f64;
    let r = 32.0 / X::BLOCK as f64;
    for path in 0..7u8 {
        let (t, heap) = measured(|| match path {
            0 => X::new_u8(&q),
            1 => X::from(q.iter().copied().collect::<QVector>()),
            2 => X::collect_u64(&q),
            3 => X::collect_filtered(&q),
            k => X::collect_hinted(&q, k - 3),
        });
        let derived: Vec<(&str, X, usize)> = if path == 0 {
            let bytes = bincode::serialize(&t).unwrap();
            let (d, dh) = measured(|| bincode::deserialize::<X>(&bytes).unwrap());
            let (c, ch) = measured(|| t.clone());
            vec![("deserialized copy", d, dh), ("clone", c, ch)]
        } else {
            vec![]
        };
        match prop {
            "C14" => {
                let bits = 8.0 * (heap + std::mem::size_of_val(&t)) as f64;
                let bound = (1.0 + r + 0.01) * 2.0 * n + 8.0 * (C_LEVEL + C0);
                check_le(ctx, "retained bits", format!("construction path {path}: n={}", q.len()), bits, bound);
                for (what, d, dh) in &derived {
                    check_le(ctx, "retained bits", format!("{what}: n={}", q.len()), 8.0 * (dh + std::mem::size_of_val(d)) as f64, bound);
                }
            }
            "C16" => {
                check_reported(ctx, &t, heap, 3, 0, &format!("{} (n={}, path {path})", X::NAME, q.len()));
                for (what, d, dh) in &derived {
                    check_reported(ctx, d, *dh, 3, 0, &format!("{what} of {} (n={})", X::NAME, q.len()));
                }
            }
            _ => {}
        }
    }
}

fn run_qvector(ctx: &mut Ctx, prop: &str, gen: &Gen) {
    let q: Vec<u8> = gen.abstract_seq().iter().map(|&s| (s % 4) as u8).collect();
    ctx.set_ty("QVector");
    ctx.note_input(&q, q.len() > 1000);
    for path in 0..5u8 {
        let (t, heap) = measured(|| match path {
            0 => q.iter().copied().collect::<QVector>(),
            1 => q.iter().copied().filter(|_| true).collect::<QVector>(),
            k => mc::iterops::hinted(q.clone(), k - 1).collect::<QVector>(),
        });
        match prop {
            "C14" => check_le(ctx, "retained bits", format!("QVector path {path}: n={}", q.len()), 8.0 * (heap + std::mem::size_of_val(&t)) as f64, 1.01 * 2.0 * q.len() as f64 + 8.0 * 512.0),
            "C16" => check_reported(ctx, &t, heap, 1, 0, &format!("QVector (n={}, path {path})", q.len())),
            _ => {}
        }
    }
}

fn run_bin<X: BinRS>(ctx: &mut Ctx, prop: &str, gen: &BitGen) {
    let bits = gen.bits();
    let ones: Vec<usize> = bits.iter().enumerate().filter(|(_, &b)| b).map(|(i, _)| i).collect();
    ctx.set_ty(X::NAME);
    ctx.note_input(&bits, bits.len() > 1000);
    let n = bits.len() as f64;
    for path in 0..7u8 {
        if path == 2 && bits.last() != Some(&true) {
            continue;
        }
        let (t, heap) = measured(|| match path {
            0 => X::new_(bits.iter().copied().collect::<BitVector>()),
            1 => X::from(BitVector::from(bits.iter().copied().collect::<BitVectorMut>())),
            // the bit vector built from the positions of the ones
            2 => X::new_(ones.iter().copied().collect::<BitVector>()),
            // collected from iterators whose size hint is unknown / a loose upper bound / a loose lower bound
            3 => X::new_(bits.iter().copied().filter(|_| true).collect::<BitVector>()),
            k => X::new_(mc::iterops::hinted(bits.clone(), k - 3).collect::<BitVector>()),
        });
        match prop {
            "C14" => {
                if X::NAME == "RSWide" {
                    check_le(ctx, "retained bits", format!("construction path {path}: n={}", bits.len()), 8.0 * (heap + std::mem::size_of_val(&t)) as f64, 1.05 * n + 8.0 * (C_LEVEL + C0));
                }
            }
            "C16" => check_reported(ctx, &t, heap, 4, 0, &format!("{} (n={}, path {path})", X::NAME, bits.len())),
            _ => {}
        }
    }
}

fn run_darr<const S0: bool>(ctx: &mut Ctx, prop: &str, gen: &BitGen) {
    if prop != "C16" {
        return;
    }
    let bits = gen.bits();
    ctx.set_ty(if S0 { "DArray<true>" } else { "DArray<false>" });
    ctx.note_input(&bits, bits.len() > 1000);
    let (t, heap) = measured(|| bits.iter().copied().collect::<DArray<S0>>());
    let ones = bits.iter().filter(|&&b| b).count();
    if ones > 1024 && bits.len() / ones.max(1) > 64 {
        ctx.count("sparse_darray_cases");
    }
    check_reported(ctx, &t, heap, 8, 0, &format!("DArray<{S0}> (n={}, ones={})", bits.len(), ones));
    // the serialized form does not record SELECT0_SUPPORT: the bytes of one flavour load as the other one, and whatever
    // that value then owns must be what it reports
    let bytes = bincode::serialize(&t).unwrap();
    if S0 {
        let (d, heap) = measured(|| bincode::deserialize::<DArray<false>>(&bytes));
        if let Ok(d) = d {
            check_reported(ctx, &d, heap, 8, 0, &format!("DArray<false> deserialized from the bytes of a DArray<true> (n={}, ones={})", bits.len(), ones));
        }
    } else {
        let (d, heap) = measured(|| bincode::deserialize::<DArray<true>>(&bytes));
        if let Ok(d) = d {
            check_reported(ctx, &d, heap, 8, 0, &format!("DArray<true> deserialized from the bytes of a DArray<false> (n={}, ones={})", bits.len(), ones));
        }
    }
    ctx.count("cross_flavour_deserializations");
}

fn run_bits(ctx: &mut Ctx, prop: &str, gen: &BitGen) {
    if prop != "C16" {
        return;
    }
    let bits = gen.bits();
    ctx.note_input(&bits, bits.len() > 1000);
    ctx.set_ty("BitVector");
    let (t, heap) = measured(|| bits.iter().copied().collect::<BitVector>());
    check_reported(ctx, &t, heap, 1, 0, &format!("BitVector (n={})", bits.len()));
    ctx.set_ty("BitVectorMut");
    let n = bits.len();
    let states: Vec<(&str, Box<dyn Fn() -> BitVectorMut>)> = vec![
        ("collect", Box::new(|| bits.iter().copied().collect::<BitVectorMut>())),
        ("with_capacity, untouched", Box::new(|| BitVectorMut::with_capacity(n))),
        ("with_capacity then pushes", Box::new(|| {
            let mut b = BitVectorMut::with_capacity(n);
            for &x in &bits {
                b.push(x);
            }
            b
        })),
        ("grown by push", Box::new(|| {
            let mut b = BitVectorMut::new();
            for &x in &bits {
                b.push(x);
            }
            b
        })),
        ("grown by push, shrink_to_fit", Box::new(|| {
            let mut b = BitVectorMut::new();
            for &x in &bits {
                b.push(x);
            }
            b.shrink_to_fit();
            b
        })),
        ("with_zeros", Box::new(|| BitVectorMut::with_zeros(n))),
        ("From<BitVector>", Box::new(|| BitVectorMut::from(bits.iter().copied().collect::<BitVector>()))),
    ];
    for (name, mk) in &states {
        let (t, heap) = measured(|| mk());
        check_reported(ctx, &t, heap, 1, 0, &format!("BitVectorMut {name} (n={n})"));
        if *name == "with_capacity, untouched" && n > 0 {
            ctx.count("empty_vectors_with_reserved_capacity");
        }
    }
}

// ------------------------------------------------------------------------------------------------

fn grid_lengths(th: bool) -> Vec<usize> {
    let mut v = vec![0usize, 1, 255, 256, 257];
    let kmax = if th { 22 } else { 18 };
    for k in 10..=kmax {
        v.extend([(1usize << k) - 1, 1 << k, (1 << k) + 1]);
        if k % 3 == 0 {
            v.push(3 * (1 << k) / 2 + 1);
        }
        // between the powers of two: a growth policy that keeps "a little" spare capacity shows just above the
        // fraction of the capacity where it stops shrinking (9/16, 5/8, 3/4, 7/8, 8/9, 15/16 of 2^k, plus one line)
        if k % 3 == 0 || th {
            for (num, den) in [(9usize, 16usize), (5, 8), (3, 4), (7, 8), (8, 9), (15, 16)] {
                v.push(((1usize << k) * num).div_ceil(den) + 257);
            }
        }
    }
    v.sort_unstable();
    v.dedup();
    v
}

fn enumerate(args: &Args) -> Vec<SpCase> {
    let th = args.tier == "thorough";
    let prop = args.property.as_str();
    let mut v = Vec::new();
    let lens = grid_lengths(th);
    if prop == "C14" || prop == "C16" {
        let aliases: Vec<&str> = if prop == "C14" { PLAIN_QUAD.iter().copied().chain(["WT"]).collect() } else { PLAIN_QUAD.iter().chain(HUFF_QUAD.iter()).copied().chain(["WT", "HWT"]).collect() };
        for &n in &lens {
            for (sigma, elem, vm) in [(1u32, "u8", "id"), (2, "u8", "id"), (4, "u8", "id"), (5, "u8", "id"), (16, "u8", "id"), (17, "u16", "id"), (256, "u16", "id"), (257, "u16", "id"), (1000, "u16", "id"), (16, "u64", "spread"), (4, "u32", "spread"), (2, "u128", "wide"), (3, "u128", "wide"), (2, "u64", "wide")] {
                if n > 70_000 && (elem == "u64" || elem == "u32" || elem == "u128") && !th {
                    continue;
                }
                for pat in [Pat::Periodic, Pat::Blocks, Pat::Rare(1)] {
                    for &al in &aliases {
                        let huff = al.starts_with('H');
                        if huff && (vm == "spread" || vm == "wide") {
                            continue; // a 2^64-entry table cannot exist
                        }
                        if n > 300_000 && !(pat == Pat::Periodic) {
                            continue;
                        }
                        v.push(SpCase::Tree { alias: al.into(), elem: elem.into(), gen: Gen::Boundary { n, pat, sigma }, vmap: vm.into() });
                    }
                }
            }
        }
        for &n in &lens {
            for (sigma, pat) in [(4u32, Pat::Periodic), (4, Pat::Blocks), (2, Pat::Rare(1)), (4, Pat::Const(3))] {
                let tys: &[&str] = if prop == "C16" { &["RSQVector256", "RSQVector512", "QVector"] } else { &["RSQVector256", "RSQVector512", "QVector"] };
                for ty in tys {
                    v.push(SpCase::Quad { ty: ty.to_string(), gen: Gen::Boundary { n, pat, sigma } });
                }
            }
            for pat in [BitPat::Alt, BitPat::Ones, BitPat::Zeros, BitPat::OnePer(512), BitPat::OnePer(1024), BitPat::OnePer(64), BitPat::ZeroPer(7), BitPat::Runs(512), BitPat::OnePer(100), BitPat::OnePer(4096)] {
                for ty in ["RSWide", "RSNarrow"] {
                    if prop == "C14" && ty == "RSNarrow" {
                        continue;
                    }
                    v.push(SpCase::Bin { ty: ty.into(), gen: BitGen::Pat { n, pat } });
                }
                if prop == "C16" {
                    v.push(SpCase::Bits { gen: BitGen::Pat { n, pat } });
                    for sel0 in [false, true] {
                        v.push(SpCase::DArr { sel0, gen: BitGen::Pat { n, pat } });
                    }
                }
            }
        }
        if prop == "C16" {
            for sh in group_shapes(&[Grp::D, Grp::S], 3) {
                for complement in [false, true] {
                    for sel0 in [false, true] {
                        v.push(SpCase::DArr { sel0, gen: BitGen::Groups { groups: sh.clone(), partial: 500, pk: Grp::S, lead: 1, tail: 1, complement } });
                    }
                }
            }
            for k in 0..6u8 {
                v.push(SpCase::Containers { k });
            }
            // Huffman profiles for the table accounting
            for &al in HUFF_QUAD.iter().chain(["HWT"].iter()) {
                for freqs in [vec![1000u32, 2000, 4000, 8000, 16000, 32000], chain4(8), vec![5000; 64]] {
                    v.push(SpCase::Tree { alias: al.to_string(), elem: "u16".into(), gen: Gen::Huff { freqs, arr: 2 }, vmap: "hid".into() });
                }
            }
        }
    } else if prop == "C15" {
        let aliases: Vec<&str> = HUFF_QUAD.iter().copied().chain(["HWT"]).collect();
        let scales: &[u32] = if th { &[1, 16, 256, 2048] } else { &[1, 64, 512] };
        let mut profiles: Vec<Vec<u32>> = vec![
            vec![1, 1],
            vec![1; 4],
            vec![1; 5],
            vec![1; 16],
            vec![1; 17],
            vec![1; 256],
            vec![10, 20, 70],
            vec![1, 2, 4, 8, 16, 32, 64, 128],
            vec![1, 1, 1, 1, 1, 1, 1, 500],
            vec![1, 3, 9, 27, 81, 243, 729],
            vec![100],
            vec![7, 7, 7, 7, 7, 7, 7, 50, 50, 400],
        ];
        profiles.push(chain4(6));
        profiles.push(chain4(8));
        profiles.push(chain4(9));
        profiles.push(chain4(10));
        profiles.push(geom4(7));
        profiles.push(geom4(9));
        profiles.push(geom4(10));
        profiles.push(chain2(12));
        profiles.push(chain2(17));
        profiles.push(chain2(18));
        profiles.push(chain2(21));
        profiles.push((1..=200u32).collect());
        for p in &profiles {
            for &s in scales {
                let total: u64 = p.iter().map(|&f| f as u64 * s as u64).sum();
                if total > (if th { 1 << 21 } else { 1 << 18 }) {
                    continue;
                }
                let freqs: Vec<u32> = p.iter().map(|&f| f * s).collect();
                for arr in [0u8, 1, 2] {
                    for &al in &aliases {
                        for (elem, vm) in [("u8", "hid"), ("u16", "hgap")] {
                            if p.len() > 85 && vm == "hgap" && elem == "u8" || p.len() > 255 && elem == "u8" {
                                continue;
                            }
                            v.push(SpCase::Tree { alias: al.into(), elem: elem.into(), gen: Gen::Huff { freqs: freqs.clone(), arr }, vmap: vm.into() });
                        }
                    }
                }
            }
        }
        // a frequent symbol whose value needs 17 / 20 bits (next to small rare ones, and the reverse)
        for freqs in [vec![1000u32, 100, 100, 1, 1, 1, 1], vec![1, 1, 1, 1, 100, 100, 1000], vec![300, 300, 300, 300, 20, 20, 20, 20, 20, 1, 1, 1, 1, 1, 1, 1, 1]] {
            for vm in ["hbigfirst17", "hbiglast17", "hbigfirst20", "hbiglast20"] {
                for &al in &aliases {
                    v.push(SpCase::Tree { alias: al.into(), elem: if vm.ends_with("20") { "u64" } else { "u32" }.into(), gen: Gen::Huff { freqs: freqs.clone(), arr: 2 }, vmap: vm.into() });
                }
            }
        }
        // very short sequences over symbols that are large multiples of 2^16 (a sort key that packs count and symbol)
        for freqs in [vec![40u32, 1, 1, 1, 1, 1, 1, 1, 1], vec![9, 2, 2, 1, 1, 1], vec![200, 3, 3, 3, 1, 1, 1, 1, 1, 1, 1, 1]] {
            for &al in &aliases {
                for arr in [0u8, 2] {
                    v.push(SpCase::Tree { alias: al.into(), elem: "u32".into(), gen: Gen::Huff { freqs: freqs.clone(), arr }, vmap: "hscale16".into() });
                }
            }
        }
        // construction histories: the same counts handed to the symbols in another order, built one after
        // the other on the same thread (all ordered pairs of three assignments, incl. the same one twice)
        // (counts large enough for the level data to dominate the additive per-level and table terms of the bound)
        for base in [
            vec![64u32, 128, 256, 512, 1024, 2048, 4096, 8192],
            vec![40, 40, 40, 40, 40, 40, 40, 20000],
            vec![1000, 2000, 7000],
            vec![16, 48, 144, 432, 1296, 3888, 11664],
            vec![1024, 2048, 4096, 8192, 16384, 32768, 65536, 131072],
            vec![500, 500, 500, 500, 500, 500, 500, 250000],
            vec![4096, 1024, 1024, 1024, 256, 256, 256, 64, 64, 64, 16, 16, 16, 4, 4, 4].iter().map(|&x: &u32| x * 32).collect(),
        ] {
            let mut rev = base.clone();
            rev.reverse();
            let mut rot = base.clone();
            rot.rotate_left(base.len() / 2);
            let variants = [base.clone(), rev, rot];
            for a in &variants {
                for b in &variants {
                    for &al in &aliases {
                        v.push(SpCase::TreeAfter { alias: al.into(), elem: "u8".into(), first: Gen::Huff { freqs: a.clone(), arr: 2 }, second: Gen::Huff { freqs: b.clone(), arr: 2 }, vmap: "hid".into() });
                    }
                }
            }
        }
        // drifting distributions: a long constant phase followed by a uniform one (and the reverse)
        for &n in &[3usize * 65536, 3 * 65536 + 3, 200_000, 65536 + 4096, 1 << 16, 40_000, (1 << 18) + 1331, (1 << 19) + 77] {
            for sigma in [16u32, 201] {
                for pat in [Pat::DenseThenSparse, Pat::ConstThenPeriodic, Pat::ConstPeriodicOne] {
                    for &al in &aliases {
                        v.push(SpCase::Tree { alias: al.into(), elem: "u8".into(), gen: Gen::Boundary { n, pat, sigma }, vmap: "hid".into() });
                    }
                }
            }
        }
        // uniform large alphabets: tables dominate for small n, level data for large n
        for (n, sigma) in [(1000usize, 1000u32), (65536, 1000), (1 << 18, 1000), (1 << 18, 4), (1 << 18, 17), (70001, 70001)] {
            for &al in &aliases {
                v.push(SpCase::Tree { alias: al.into(), elem: "u32".into(), gen: Gen::Boundary { n, pat: Pat::Periodic, sigma }, vmap: "hid".into() });
            }
        }
    }
    v
}

fn main() {
    main_with::<SpCase>(enumerate);
}
