//! C18: queries are pure and structures can be shared across threads.
//!  * hist   (E2)  explicit-state exploration of sequential query histories: the state (serialized bytes +
//!                 digest of every byte the structure allocated) must never change - one state with |A|
//!                 self-loops - and every answer must equal the answer of the same query asked alone;
//!  * sched  (E4)  shuttle::check_dfs over 2 threads x 3 queries and 3 threads x 2 queries on one shared
//!                 structure: every interleaving at query granularity, answers equal the sequential ones;
//!  * stress       the same batches on free-running OS threads (a sampling pass; never the sole decider).
//! The structure is built inside an arena allocator so that "no query writes to the structure" is an
//! observation (digest of the arena) rather than an assumption: when it holds, read-only steps commute and
//! every finer interleaving is equivalent to one that was executed.
use mc::bvobs::quiet;
use mc::gens::*;
use mc::refm::{RefBits, RefSeq};
use mc::run::*;
use mc::trees::*;
use mc::vecs::*;
use mc::with_tree;
use qwt::{BitVector, DArray, RSNarrow, RSQVector256, RSQVector512, RSWide, AccessBin, SelectBin};
use serde::{Deserialize, Serialize};
use std::alloc::{GlobalAlloc, Layout, System};
use std::sync::atomic::{AtomicBool, AtomicU64, AtomicUsize, Ordering::*};
use std::sync::Arc;

// ------------------------------------------------------------------------------------------------
// arena allocator

struct Arena;
static ON: AtomicBool = AtomicBool::new(false);
static BASE: AtomicUsize = AtomicUsize::new(0);
static TOP: AtomicUsize = AtomicUsize::new(0);
static END: AtomicUsize = AtomicUsize::new(0);
const ARENA_BYTES: usize = 1 << 28;

unsafe impl GlobalAlloc for Arena {
    unsafe fn alloc(&self, l: Layout) -> *mut u8 {
        if ON.load(Relaxed) {
            let mut cur = TOP.load(Relaxed);
            loop {
                let start = (cur + l.align() - 1) & !(l.align() - 1);
                let end = start + l.size().max(1);
                if end > END.load(Relaxed) {
                    break;
                }
                match TOP.compare_exchange(cur, end, Relaxed, Relaxed) {
                    Ok(_) => return start as *mut u8,
                    Err(c) => cur = c,
                }
            }
        }
        System.alloc(l)
    }
    unsafe fn dealloc(&self, p: *mut u8, l: Layout) {
        let a = p as usize;
        if a >= BASE.load(Relaxed) && a < END.load(Relaxed) && BASE.load(Relaxed) != 0 {
            return;
        }
        System.dealloc(p, l)
    }
    unsafe fn realloc(&self, p: *mut u8, l: Layout, new: usize) -> *mut u8 {
        let a = p as usize;
        if (a >= BASE.load(Relaxed) && a < END.load(Relaxed) && BASE.load(Relaxed) != 0) || ON.load(Relaxed) {
            let n = self.alloc(Layout::from_size_align_unchecked(new, l.align()));
            std::ptr::copy_nonoverlapping(p, n, l.size().min(new));
            self.dealloc(p, l);
            return n;
        }
        System.realloc(p, l, new)
    }
}
#[global_allocator]
static ALLOC: Arena = Arena;

fn arena_reset() {
    unsafe {
        if BASE.load(Relaxed) == 0 {
            let p = libc::mmap(std::ptr::null_mut(), ARENA_BYTES, libc::PROT_READ | libc::PROT_WRITE, libc::MAP_PRIVATE | libc::MAP_ANONYMOUS | libc::MAP_NORESERVE, -1, 0);
            assert!(p != libc::MAP_FAILED);
            BASE.store(p as usize, Relaxed);
            END.store(p as usize + ARENA_BYTES, Relaxed);
        }
    }
    TOP.store(BASE.load(Relaxed), Relaxed);
}

/// digest of every byte allocated in the arena so far
fn arena_digest() -> (u64, usize) {
    let (b, t) = (BASE.load(Relaxed), TOP.load(Relaxed));
    let len = t - b;
    let words = unsafe { std::slice::from_raw_parts(b as *const u64, len / 8) };
    let mut h: u64 = 0x9E37_79B9_7F4A_7C15;
    for &w in words {
        h = (h ^ w).wrapping_mul(0x100_0000_01B3).rotate_left(23);
    }
    (h, len)
}

static WROTE: AtomicBool = AtomicBool::new(false);

extern "C" fn on_protected_write(_sig: libc::c_int, info: *mut libc::siginfo_t, _uc: *mut libc::c_void) {
    // a write into the read-only arena: note it, make the arena writable again and let the instruction run again
    let addr = unsafe { (*info).si_addr() } as usize;
    let (b, e) = (BASE.load(Relaxed), END.load(Relaxed));
    if addr >= b && addr < e {
        WROTE.store(true, SeqCst);
        unsafe {
            libc::mprotect(b as *mut libc::c_void, e - b, libc::PROT_READ | libc::PROT_WRITE);
        }
    } else {
        // a genuine fault: default action
        unsafe {
            libc::signal(libc::SIGSEGV, libc::SIG_DFL);
        }
    }
}

/// Runs `f` with every page of the arena read-only: true if `f` wrote to memory the structures own, even if it
/// restored the bytes afterwards (a lock taken and released, a scratch buffer filled and cleared).
fn writes_to_arena(f: impl FnOnce()) -> bool {
    let (b, e) = (BASE.load(Relaxed), END.load(Relaxed));
    if b == 0 {
        return false;
    }
    unsafe {
        let mut sa: libc::sigaction = std::mem::zeroed();
        let mut old: libc::sigaction = std::mem::zeroed();
        sa.sa_sigaction = on_protected_write as *const () as usize;
        sa.sa_flags = libc::SA_SIGINFO;
        libc::sigemptyset(&mut sa.sa_mask);
        libc::sigaction(libc::SIGSEGV, &sa, &mut old);
        WROTE.store(false, SeqCst);
        libc::mprotect(b as *mut libc::c_void, e - b, libc::PROT_READ);
        f();
        libc::mprotect(b as *mut libc::c_void, e - b, libc::PROT_READ | libc::PROT_WRITE);
        libc::sigaction(libc::SIGSEGV, &old, std::ptr::null_mut());
    }
    WROTE.load(SeqCst)
}

fn in_arena<R>(on: bool, f: impl FnOnce() -> R) -> R {
    ON.store(on, SeqCst);
    let r = f();
    ON.store(false, SeqCst);
    r
}

// ------------------------------------------------------------------------------------------------
// uniform query interface

#[derive(Debug, Clone, PartialEq, Serialize, Deserialize)]
enum Q {
    Len,
    Get(usize),
    Rank(u128, usize),
    RankPf(u128, usize),
    Select(u128, usize),
    Rank1(usize),
    Rank0(usize),
    Select1(usize),
    Select0(usize),
    Occs(u8),
    OccsSmaller(u8),
    IterSum,
    OnesFrom(usize),
    GetBits(usize, usize),
}

/// answer of a query, canonical: None / Some(value); iterators give a checksum
type Ans = Option<u128>;

trait Subj: Send + Sync {
    fn ask(&self, q: &Q) -> Ans;
    fn bytes(&self) -> Vec<u8>;
    /// another value in the same abstract state: 1 = clone(), 2 = deserialize(serialize(..)), 3 = clone_from into Default
    fn copy(&self, how: u8) -> Arc<dyn Subj>;
}

fn copy_of<V: Clone + Default + Serialize + serde::de::DeserializeOwned>(v: &V, how: u8) -> V {
    // 1 clone, 2 bincode round trip, 3 clone_from into a Default value
    derived(v, how, V::default)
}

struct TreeS<X: Tree>(X);
impl<X: Tree> Subj for TreeS<X> {
    fn ask(&self, q: &Q) -> Ans {
        let t = &self.0;
        match q {
            Q::Len => Some(t.len_() as u128),
            Q::Get(i) => t.get_(*i).map(|x| x.to_u128()),
            Q::Rank(c, i) => t.rank_(X::T::from_u128(*c), *i).map(|x| x as u128),
            Q::RankPf(c, i) => t.rank_prefetch_(X::T::from_u128(*c), *i).unwrap_or(None).map(|x| x as u128),
            Q::Select(c, k) => t.select_(X::T::from_u128(*c), *k).map(|x| x as u128),
            Q::IterSum => Some(t.iter_().fold(0u128, |a, x| a.wrapping_mul(31).wrapping_add(x.to_u128()))),
            _ => None,
        }
    }
    fn bytes(&self) -> Vec<u8> {
        bincode::serialize(&self.0).unwrap_or_default()
    }
    fn copy(&self, how: u8) -> Arc<dyn Subj> {
        Arc::new(TreeS(copy_of(&self.0, how)))
    }
}
struct QuadS<X: QuadRS>(X);
impl<X: QuadRS> Subj for QuadS<X> {
    fn ask(&self, q: &Q) -> Ans {
        let t = &self.0;
        match q {
            Q::Len => Some(t.len_() as u128),
            Q::Get(i) => t.get(*i).map(|x| x as u128),
            Q::Rank(c, i) => t.rank(*c as u8, *i).map(|x| x as u128),
            Q::Select(c, k) => t.select(*c as u8, *k).map(|x| x as u128),
            Q::Occs(s) => t.occs(*s).map(|x| x as u128),
            Q::OccsSmaller(s) => t.occs_smaller(*s).map(|x| x as u128),
            Q::IterSum => Some(t.iter_vec().iter().fold(0u128, |a, &x| a.wrapping_mul(31).wrapping_add(x as u128))),
            _ => None,
        }
    }
    fn bytes(&self) -> Vec<u8> {
        bincode::serialize(&self.0).unwrap_or_default()
    }
    fn copy(&self, how: u8) -> Arc<dyn Subj> {
        Arc::new(QuadS(copy_of(&self.0, how)))
    }
}
struct BinS<X: BinRS>(X);
impl<X: BinRS> Subj for BinS<X> {
    fn ask(&self, q: &Q) -> Ans {
        let t = &self.0;
        match q {
            Q::Len => Some((t.n_ones_() + t.n_zeros_inherent()) as u128),
            Q::Get(i) => t.get(*i).map(|x| x as u128),
            Q::Rank1(i) => t.rank1(*i).map(|x| x as u128),
            Q::Rank0(i) => t.rank0(*i).map(|x| x as u128),
            Q::Select1(k) => t.select1(*k).map(|x| x as u128),
            Q::Select0(k) => t.select0(*k).map(|x| x as u128),
            _ => None,
        }
    }
    fn bytes(&self) -> Vec<u8> {
        bincode::serialize(&self.0).unwrap_or_default()
    }
    fn copy(&self, how: u8) -> Arc<dyn Subj> {
        Arc::new(BinS(copy_of(&self.0, how)))
    }
}
struct DArrS<const S0: bool>(DArray<S0>);
impl<const S0: bool> Subj for DArrS<S0> {
    fn ask(&self, q: &Q) -> Ans {
        let t = &self.0;
        match q {
            Q::Len => Some(t.len() as u128),
            Q::Get(i) => t.get(*i).map(|x| x as u128),
            Q::Select1(k) => t.select1(*k).map(|x| x as u128),
            Q::Select0(k) => {
                if S0 {
                    t.select0(*k).map(|x| x as u128)
                } else {
                    None
                }
            }
            Q::IterSum => Some(t.ones().fold(0u128, |a, x| a.wrapping_mul(31).wrapping_add(x as u128))),
            Q::OnesFrom(p) => Some(quiet(|| t.ones_with_pos(*p).take(100).fold(0u128, |a, x| a.wrapping_mul(31).wrapping_add(x as u128)))),
            _ => None,
        }
    }
    fn bytes(&self) -> Vec<u8> {
        bincode::serialize(&self.0).unwrap_or_default()
    }
    fn copy(&self, how: u8) -> Arc<dyn Subj> {
        Arc::new(DArrS::<S0>(copy_of(&self.0, how)))
    }
}
struct BitsS(BitVector);
impl Subj for BitsS {
    fn ask(&self, q: &Q) -> Ans {
        let t = &self.0;
        match q {
            Q::Len => Some(t.len() as u128),
            Q::Get(i) => t.get(*i).map(|x| x as u128),
            Q::GetBits(i, l) => t.get_bits(*i, *l).map(|x| x as u128),
            Q::IterSum => Some(t.ones().fold(0u128, |a, x| a.wrapping_mul(31).wrapping_add(x as u128))),
            Q::OnesFrom(p) => Some(quiet(|| t.zeros_with_pos(*p).take(100).fold(0u128, |a, x| a.wrapping_mul(31).wrapping_add(x as u128)))),
            _ => None,
        }
    }
    fn bytes(&self) -> Vec<u8> {
        bincode::serialize(&self.0).unwrap_or_default()
    }
    fn copy(&self, how: u8) -> Arc<dyn Subj> {
        Arc::new(BitsS(copy_of(&self.0, how)))
    }
}

// ------------------------------------------------------------------------------------------------
// subjects and their query alphabets (computed from the reference model of the input)

#[derive(Debug, Clone, Serialize, Deserialize)]
enum SubjDesc {
    Tree { alias: String, elem: String, gen: Gen, vmap: String },
    Quad { ty: String, gen: Gen },
    Bin { ty: String, gen: BitGen },
    DArr { sel0: bool, gen: BitGen },
    Bits { gen: BitGen },
}

fn boundaries(n: usize) -> Vec<usize> {
    let mut b = vec![0, 1, 255, 256, 257, 511, 512, 513, 2047, 2048, 2049, 4095, 4096, 4097, 6144, 8191, 8192, 8193, n / 2, n.saturating_sub(1), n, n + 1, usize::MAX];
    b.retain(|&x| x <= n + 1 || x == usize::MAX);
    b.sort_unstable();
    b.dedup();
    b
}

fn seq_alphabet(r: &RefSeq<u128>, quad_pf: bool, quadrs: bool, cap: usize) -> Vec<Q> {
    let n = r.len();
    let mut a = vec![Q::Len, Q::IterSum];
    // symbols: the most frequent, the rarest, the largest, an absent one, one out of range
    let mut by: Vec<(usize, u128)> = r.occ.iter().map(|(k, v)| (v.len(), *k)).collect();
    by.sort();
    let mut syms: Vec<u128> = Vec::new();
    if let (Some(f), Some(l)) = (by.first(), by.last()) {
        syms.extend([l.1, f.1, *r.occ.keys().next_back().unwrap()]);
    }
    let m = r.max().unwrap_or(0);
    syms.push((0..=m).find(|x| !r.occ.contains_key(x)).unwrap_or_else(|| m.saturating_add(1)));
    syms.push(m.saturating_add(2));
    syms.dedup();
    let bs = boundaries(n);
    for &b in &bs {
        a.push(Q::Get(b));
        a.push(Q::Get(b.wrapping_sub(1)));
    }
    for &c in &syms {
        for &b in &bs {
            a.push(Q::Rank(c, b));
            if quad_pf {
                a.push(Q::RankPf(c, b));
            }
            // occurrence indices around the count at the boundary: the last occurrence before it, the
            // first one after it
            let k = r.rank(c, b.min(n));
            for d in [k.wrapping_sub(1), k, k + 1] {
                a.push(Q::Select(c, d));
            }
        }
        a.push(Q::Select(c, r.count(c)));
        a.push(Q::Select(c, usize::MAX));
    }
    if quadrs {
        for s in [0u8, 1, 2, 3, 4, 255] {
            a.push(Q::Occs(s));
            a.push(Q::OccsSmaller(s));
        }
    }
    dedup_cap(a, cap)
}

fn bit_alphabet(r: &RefBits, darray: bool, plain: bool, cap: usize) -> Vec<Q> {
    let n = r.len();
    let mut a = vec![Q::Len];
    let bs = boundaries(n);
    for &b in &bs {
        a.push(Q::Get(b));
        if plain {
            for l in [1usize, 7, 64] {
                a.push(Q::GetBits(b, l));
            }
            a.push(Q::OnesFrom(b));
        } else if darray {
            a.push(Q::OnesFrom(b));
        } else {
            a.push(Q::Rank1(b));
            a.push(Q::Rank0(b));
        }
        if !plain {
            let k1 = r.rank1(b.min(n));
            let k0 = b.min(n) - k1;
            for d in [k1.wrapping_sub(1), k1, k1 + 1, k1 + 31, k1 + 32] {
                a.push(Q::Select1(d));
            }
            for d in [k0.wrapping_sub(1), k0, k0 + 1, k0 + 31, k0 + 32] {
                a.push(Q::Select0(d));
            }
        }
    }
    if !plain {
        // consecutive selects (a finger / hint cache would be exercised by k, k+1, k-1 patterns)
        for k in [0usize, 1, 2, 3, 33, 34, 35, 1023, 1024, 1025, r.ones.len().saturating_sub(1), r.ones.len()] {
            a.push(Q::Select1(k));
            a.push(Q::Select0(k));
        }
    }
    if plain || darray {
        a.push(Q::IterSum);
    }
    dedup_cap(a, cap)
}

fn dedup_cap(a: Vec<Q>, cap: usize) -> Vec<Q> {
    let mut out: Vec<Q> = Vec::new();
    for q in a {
        if !out.contains(&q) {
            out.push(q);
        }
    }
    if out.len() > cap {
        // keep a spread of the alphabet, deterministic
        let step = out.len() as f64 / cap as f64;
        out = (0..cap).map(|i| out[(i as f64 * step) as usize].clone()).collect();
    }
    out
}

fn make_subject(ctx: &mut Ctx, d: &SubjDesc, cap: usize, arena: bool) -> Option<(Arc<dyn Subj>, Vec<Q>)> {
    if arena {
        arena_reset();
    }
    match d {
        SubjDesc::Tree { alias, elem, gen, vmap: vm } => {
            fn go<X: Tree>(ctx: &mut Ctx, gen: &Gen, vm: &str, cap: usize, arena: bool) -> Option<(Arc<dyn Subj>, Vec<Q>)> {
                let a = gen.abstract_seq();
                let sigma = a.iter().copied().max().map_or(0, |m| m + 1);
                let vals: Vec<X::T> = a.iter().map(|&s| X::T::from_u128(vmap(vm, X::T::BITS, s, sigma))).collect();
                let v128: Vec<u128> = vals.iter().map(|x| x.to_u128()).collect();
                ctx.set_ty(&X::name());
                ctx.note_input(&v128, true);
                let r = RefSeq::new(&v128);
                if X::HUFF {
                    qwt::verif_hooks::set_tie_script(Some(vec![]));
                }
                let s: Arc<dyn Subj> = in_arena(arena, || {
                    let t = X::from_vec(vals.clone());
                    let _ = qwt::verif_hooks::take_tie_report();
                    Arc::new(TreeS(t))
                });
                qwt::verif_hooks::set_tie_script(None);
                Some((s, seq_alphabet(&r, X::QUAD, false, cap)))
            }
            with_tree!(alias.as_str(), elem.as_str(), go(ctx, gen, vm, cap, arena))
        }
        SubjDesc::Quad { ty, gen } => {
            let q: Vec<u8> = gen.abstract_seq().iter().map(|&s| (s % 4) as u8).collect();
            let r = RefSeq::new(&q.iter().map(|&x| x as u128).collect::<Vec<_>>());
            ctx.set_ty(ty);
            ctx.note_input(&q, true);
            let s: Arc<dyn Subj> = in_arena(arena, || if ty == "RSQVector256" { Arc::new(QuadS(RSQVector256::new(&q))) as Arc<dyn Subj> } else { Arc::new(QuadS(RSQVector512::new(&q))) });
            Some((s, seq_alphabet(&r, false, true, cap)))
        }
        SubjDesc::Bin { ty, gen } => {
            let bits = gen.bits();
            let r = RefBits::new(&bits);
            ctx.set_ty(ty);
            ctx.note_input(&bits, true);
            let s: Arc<dyn Subj> = in_arena(arena, || {
                let bv: BitVector = bits.iter().copied().collect();
                if ty == "RSNarrow" {
                    Arc::new(BinS(RSNarrow::new(bv))) as Arc<dyn Subj>
                } else {
                    Arc::new(BinS(RSWide::new(bv)))
                }
            });
            Some((s, bit_alphabet(&r, false, false, cap)))
        }
        SubjDesc::DArr { sel0, gen } => {
            let bits = gen.bits();
            let r = RefBits::new(&bits);
            ctx.set_ty(if *sel0 { "DArray<true>" } else { "DArray<false>" });
            ctx.note_input(&bits, true);
            let s: Arc<dyn Subj> = in_arena(arena, || if *sel0 { Arc::new(DArrS(bits.iter().copied().collect::<DArray<true>>())) as Arc<dyn Subj> } else { Arc::new(DArrS(bits.iter().copied().collect::<DArray<false>>())) });
            let mut a = bit_alphabet(&r, true, false, cap);
            if !*sel0 {
                a.retain(|q| !matches!(q, Q::Select0(_)));
            }
            Some((s, a))
        }
        SubjDesc::Bits { gen } => {
            let bits = gen.bits();
            let r = RefBits::new(&bits);
            ctx.set_ty("BitVector");
            ctx.note_input(&bits, true);
            let s: Arc<dyn Subj> = in_arena(arena, || Arc::new(BitsS(bits.iter().copied().collect::<BitVector>())));
            Some((s, bit_alphabet(&r, false, true, cap)))
        }
    }
}

// ------------------------------------------------------------------------------------------------
// modes

#[derive(Debug, Clone, Serialize, Deserialize)]
enum CCase {
    /// `origin`: 0 = the value as built, 1 = a clone of it, 2 = a deserialized copy of it (never queried before)
    Hist { subj: SubjDesc, depth: u8, cap: usize, #[serde(default)] origin: u8 },
    /// replay of one history
    History { subj: SubjDesc, cap: usize, queries: Vec<Q>, #[serde(default)] origin: u8 },
    Sched { subj: SubjDesc, threads: u8, per_thread: u8, batches: usize },
    Stress { subj: SubjDesc, threads: u8, rounds: usize },
    /// instruction-level preemption exploration (bound 1) of query pairs after a prefix history
    /// `fresh`: 0 = one instance serves all triples (histories accumulate); 1 / 2 = every triple runs on its own never-queried
    /// clone / deserialized copy of a never-queried master (first-use effects such as lazily filled caches)
    Preempt { subj: SubjDesc, max_triples: usize, #[serde(default)] fresh: u8 },
}

fn fmt_q(q: &Q) -> String {
    format!("{q:?}")
}

fn ask(s: &dyn Subj, q: &Q) -> Result<Ans, String> {
    trap(|| s.ask(q))
}

/// answers of every query asked alone on the (fresh) structure
fn solo_answers(ctx: &mut Ctx, s: &dyn Subj, alpha: &[Q]) -> Vec<Result<Ans, String>> {
    alpha
        .iter()
        .map(|q| {
            ctx.evals += 1;
            ask(s, q)
        })
        .collect()
}

fn run_hist(ctx: &mut Ctx, me: &CCase, d: &SubjDesc, depth: u8, cap: usize, origin: u8) {
    let Some((s, alpha)) = make_subject(ctx, d, cap, true) else { return };
    let s: Arc<dyn Subj> = if origin == 0 { s } else { in_arena(true, || s.copy(origin)) };
    let s: &dyn Subj = &*s;
    let bytes0 = s.bytes();
    let dig0 = arena_digest();
    // fresh answers: each query on a structure that has seen no other query. The structure is rebuilt for
    // this (a second, independent instance), so the baseline itself is history free.
    let fresh = {
        let Some((s2, alpha2)) = make_subject(ctx, d, cap, false) else { return };
        assert_eq!(alpha2, alpha);
        alpha.iter().map(|q| ask(&*s2, q)).collect::<Vec<_>>()
    };
    ctx.add("alphabet_size", alpha.len() as u64);
    ctx.maxi("max_alphabet", alpha.len() as u64);
    let mut states = std::collections::HashSet::new();
    states.insert((h64(&bytes0), dig0));
    let mut transitions = 0u64;
    let a = alpha.len();
    let total: u64 = (1..=depth as u32).map(|l| (a as u64).pow(l)).sum();
    let _ = total;
    // depth-first over all histories up to `depth`; the structure is shared (it is supposed to be
    // immutable), so a history is simply executed query after query
    let mut stack: Vec<usize> = Vec::new();
    let saved = ctx.case_desc.clone();
    let mut reported = 0;
    fn rec(
        ctx: &mut Ctx,
        s: &dyn Subj,
        alpha: &[Q],
        fresh: &[Result<Ans, String>],
        depth: u8,
        stack: &mut Vec<usize>,
        states: &mut std::collections::HashSet<(u64, (u64, usize))>,
        transitions: &mut u64,
        bytes0: &[u8],
        me: &CCase,
        reported: &mut u32,
    ) {
        if stack.len() == depth as usize {
            return;
        }
        for qi in 0..alpha.len() {
            stack.push(qi);
            ctx.evals += 1;
            *transitions += 1;
            let got = ask(s, &alpha[qi]);
            if got != fresh[qi] && *reported < 5 {
                *reported += 1;
                if let CCase::Hist { subj, cap, origin, .. } = me {
                    ctx.case_desc = serde_json::to_value(CCase::History { subj: subj.clone(), cap: *cap, queries: stack.iter().map(|&i| alpha[i].clone()).collect(), origin: *origin }).unwrap();
                }
                ctx.violation(
                    "query after a history",
                    "",
                    format!("{} after {:?}", fmt_q(&alpha[qi]), stack[..stack.len() - 1].iter().map(|&i| fmt_q(&alpha[i])).collect::<Vec<_>>()),
                    format!("{:?} (the answer on a structure that has seen no other query)", fresh[qi]),
                    format!("{got:?}"),
                );
            }
            // the state after the query: at the leaves of the exploration (cheap enough there)
            if stack.len() == depth as usize || stack.len() == 1 {
                let st = (if stack.len() == 1 { h64(&s.bytes()) } else { h64(&bytes0) }, arena_digest());
                states.insert(st);
            }
            rec(ctx, s, alpha, fresh, depth, stack, states, transitions, bytes0, me, reported);
            stack.pop();
        }
    }
    rec(ctx, s, &alpha, &fresh, depth, &mut stack, &mut states, &mut transitions, &bytes0, me, &mut reported);
    ctx.case_desc = saved;
    let bytes1 = s.bytes();
    ctx.obs("serialized form after all histories == before", "", 0, 0, 0, Exp::Is(true), || bytes1 == bytes0);
    let dig1 = arena_digest();
    ctx.add("states", states.len() as u64);
    ctx.add("transitions", transitions);
    ctx.add("traces_validated", transitions);
    ctx.add("arena_bytes_digested", dig1.1 as u64);
    if states.len() > 1 || dig1 != dig0 {
        // not a violation by itself (a correct internal cache would do this), but the commutation
        // argument is gone: say so in the evidence
        ctx.count("subjects_whose_memory_changed_during_queries");
    } else {
        ctx.count("subjects_with_one_reachable_state");
    }
}

fn run_history(ctx: &mut Ctx, d: &SubjDesc, cap: usize, queries: &[Q], origin: u8) {
    let Some((s, _)) = make_subject(ctx, d, cap, true) else { return };
    let s: Arc<dyn Subj> = if origin == 0 { s } else { in_arena(true, || s.copy(origin)) };
    // each step is compared with a dedicated fresh instance
    for (j, q) in queries.iter().enumerate() {
        let got = ask(&*s, q);
        let Some((s3, _)) = make_subject(ctx, d, cap, false) else { return };
        let want = ask(&*s3, q);
        ctx.evals += 1;
        if got != want {
            ctx.violation("query after a history", "", format!("{} as step {j} of {:?}", fmt_q(q), queries), format!("{want:?}"), format!("{got:?}"));
        }
    }
}

static SCHEDULES: AtomicU64 = AtomicU64::new(0);

fn run_sched(ctx: &mut Ctx, d: &SubjDesc, threads: u8, per_thread: u8, batches: usize) {
    let Some((s, mut alpha)) = make_subject(ctx, d, 400, true) else { return };
    // whole-sequence iteration is covered by the history and free-running modes; here it would only
    // multiply the cost of every schedule
    alpha.retain(|q| !matches!(q, Q::IterSum));
    let bytes0 = s.bytes();
    let dig0 = arena_digest();
    let solo: Vec<Ans> = solo_answers(ctx, &*s, &alpha).into_iter().map(|r| r.unwrap_or(Some(u128::MAX))).collect();
    let need = threads as usize * per_thread as usize;
    let mut executed = 0u64;
    for b in 0..batches {
        // batch b: a deterministic slice of the alphabet, rotated so that threads collide on neighbouring
        // arguments (same superblocks / same code-table entries)
        let idx: Vec<usize> = (0..need).map(|j| (b * 7 + j * (1 + b % 3)) % alpha.len()).collect();
        let qs: Vec<Q> = idx.iter().map(|&i| alpha[i].clone()).collect();
        let want: Vec<Ans> = idx.iter().map(|&i| solo[i]).collect();
        let s2 = s.clone();
        let (qs2, want2) = (qs.clone(), want.clone());
        SCHEDULES.store(0, SeqCst);
        let (t, p) = (threads as usize, per_thread as usize);
        let res = trap(move || {
            shuttle::check_dfs(
                move || {
                    SCHEDULES.fetch_add(1, SeqCst);
                    let mut hs = Vec::new();
                    for ti in 0..t {
                        let s3 = s2.clone();
                        let q3: Vec<Q> = qs2[ti * p..(ti + 1) * p].to_vec();
                        let w3: Vec<Ans> = want2[ti * p..(ti + 1) * p].to_vec();
                        hs.push(shuttle::thread::spawn(move || {
                            for (q, w) in q3.iter().zip(w3.iter()) {
                                let got = s3.ask(q);
                                assert!(got == *w, "thread {ti}: {q:?} answered {got:?} instead of {w:?}");
                                shuttle::thread::yield_now();
                            }
                        }));
                    }
                    for h in hs {
                        h.join().unwrap();
                    }
                },
                None,
            )
        });
        let n = SCHEDULES.load(SeqCst);
        executed += n;
        ctx.evals += n * need as u64;
        if let Err(msg) = res {
            ctx.violation("concurrent batch (shuttle DFS)", "", format!("{threads} threads x {per_thread} queries: {qs:?}"), "every thread obtains the sequential answers under every interleaving".into(), format!("PANIC: {}", &msg[..msg.len().min(400)]));
            break;
        }
    }
    ctx.add("schedules", executed);
    ctx.add("states", executed);
    ctx.add("transitions", executed * need as u64);
    ctx.add("traces_validated", executed);
    ctx.obs("serialized form after all schedules == before", "", 0, 0, 0, Exp::Is(true), || s.bytes() == bytes0);
    if arena_digest() != dig0 {
        ctx.count("subjects_whose_memory_changed_during_queries");
    } else {
        ctx.count("subjects_with_one_reachable_state");
    }
}

fn run_stress(ctx: &mut Ctx, d: &SubjDesc, threads: u8, rounds: usize) {
    let Some((s, alpha)) = make_subject(ctx, d, 400, true) else { return };
    let bytes0 = s.bytes();
    let solo: Vec<Ans> = solo_answers(ctx, &*s, &alpha).into_iter().map(|r| r.unwrap_or(Some(u128::MAX))).collect();
    let bad = AtomicU64::new(0);
    let first_bad = std::sync::Mutex::new(None::<String>);
    let total = AtomicU64::new(0);
    // round 0 runs on the instance that gave the sequential answers; every later round on a never-queried clone /
    // deserialized copy of it, all threads released together (first-use effects)
    for r in 0..rounds {
        let inst: Arc<dyn Subj> = if r == 0 { s.clone() } else { s.copy(1 + (r % 2) as u8) };
        let barrier = std::sync::Barrier::new(threads as usize);
        std::thread::scope(|sc| {
            for t in 0..threads as usize {
                let (s, alpha, solo, bad, first_bad, total, barrier) = (&inst, &alpha, &solo, &bad, &first_bad, &total, &barrier);
                sc.spawn(move || {
                    barrier.wait();
                    // thread t walks the alphabet with its own stride; consecutive arguments included
                    for j in 0..alpha.len() {
                        let i = (j * (1 + t % 3) + t + r) % alpha.len();
                        let got = trap(|| s.ask(&alpha[i])).unwrap_or(Some(u128::MAX - 1));
                        total.fetch_add(1, Relaxed);
                        if got != solo[i] {
                            bad.fetch_add(1, Relaxed);
                            let mut g = first_bad.lock().unwrap();
                            if g.is_none() {
                                *g = Some(format!("{:?} answered {:?} instead of {:?}", alpha[i], got, solo[i]));
                            }
                        }
                    }
                });
            }
        });
    }
    ctx.evals += total.load(Relaxed);
    ctx.add("free_running_queries", total.load(Relaxed));
    if bad.load(Relaxed) > 0 {
        ctx.violation("concurrent batch (free-running threads)", "", format!("{threads} OS threads x {rounds} rounds over the alphabet"), "sequential answers".into(), format!("{} wrong answers, first: {}", bad.load(Relaxed), first_bad.lock().unwrap().clone().unwrap_or_default()));
    }
    ctx.obs("serialized form after the stress == before", "", 0, 0, 0, Exp::Is(true), || s.bytes() == bytes0);
}

// ------------------------------------------------------------------------------------------------
// E5: exhaustive preemption points (bound 1) at machine-instruction granularity.
//
// Query A is executed with the x86 trap flag set: after every instruction a SIGTRAP handler runs. At every
// instruction boundary that lies inside this executable (not inside libc: the allocator must not be
// re-entered) the handler forks; the child executes the interfering queries B *at that point* - i.e. A is
// preempted exactly there, B runs to completion, A resumes - and exits with a verdict; the parent goes on
// stepping. One pass over A thus explores every preemption point of A once, on the real machine code.

use std::sync::atomic::AtomicI32;
static STEP_ON: AtomicBool = AtomicBool::new(false);
static IN_CHILD: AtomicBool = AtomicBool::new(false);
static POINTS: AtomicU64 = AtomicU64::new(0);
static BAD_POINTS: AtomicU64 = AtomicU64::new(0);
static FIRST_BAD: AtomicU64 = AtomicU64::new(u64::MAX);
static FIRST_BAD_CODE: AtomicI32 = AtomicI32::new(0);
static FORK_FAILURES: AtomicU64 = AtomicU64::new(0);
/// preemption points at which the interfering query blocked (A was preempted while holding a lock B needs): with real
/// threads B would simply wait for A, so such a point is not a verdict; see BACKOFF
static BLOCKED_POINTS: AtomicU64 = AtomicU64::new(0);
static SKIP_UNTIL: AtomicU64 = AtomicU64::new(0);
/// (kept for the replay format; no point is skipped after a blocked one)
static BACKOFF: AtomicU64 = AtomicU64::new(1);
static TEXT_LO: AtomicUsize = AtomicUsize::new(0);
static TEXT_HI: AtomicUsize = AtomicUsize::new(0);
static mut PREEMPT_B: Option<(*const dyn Subj, Vec<Q>, Vec<Ans>)> = None;

fn text_range() {
    if TEXT_LO.load(Relaxed) != 0 {
        return;
    }
    // executable mappings of this binary (r-xp lines whose path is our exe)
    let exe = std::env::current_exe().ok().and_then(|p| p.to_str().map(|s| s.to_string())).unwrap_or_default();
    let maps = std::fs::read_to_string("/proc/self/maps").unwrap_or_default();
    let (mut lo, mut hi) = (usize::MAX, 0usize);
    for l in maps.lines() {
        if l.contains("r-xp") && l.ends_with(&exe) {
            let r = l.split_whitespace().next().unwrap();
            let (a, b) = r.split_once('-').unwrap();
            lo = lo.min(usize::from_str_radix(a, 16).unwrap());
            hi = hi.max(usize::from_str_radix(b, 16).unwrap());
        }
    }
    TEXT_LO.store(lo, Relaxed);
    TEXT_HI.store(hi, Relaxed);
}

extern "C" fn on_trap(_sig: libc::c_int, _info: *mut libc::siginfo_t, uc: *mut libc::c_void) {
    if !STEP_ON.load(Relaxed) {
        return;
    }
    let uc = uc as *mut libc::ucontext_t;
    let rip = unsafe { (*uc).uc_mcontext.gregs[libc::REG_RIP as usize] } as usize;
    if rip < TEXT_LO.load(Relaxed) || rip >= TEXT_HI.load(Relaxed) {
        return;
    }
    let point = POINTS.fetch_add(1, Relaxed);
    if point < SKIP_UNTIL.load(Relaxed) {
        return;
    }
    unsafe {
        let pid = libc::fork();
        if pid == 0 {
            // child: A is preempted here. Stop stepping, run B now, then let A finish at full speed.
            STEP_ON.store(false, Relaxed);
            IN_CHILD.store(true, Relaxed);
            (*uc).uc_mcontext.gregs[libc::REG_EFL as usize] &= !0x100;
            // B (microseconds of work) must finish within 3 ms; if it blocks on something the preempted A holds, SIGALRM ends this child
            libc::signal(libc::SIGALRM, libc::SIG_DFL);
            let mut sigs: libc::sigset_t = std::mem::zeroed();
            libc::sigemptyset(&mut sigs);
            libc::sigaddset(&mut sigs, libc::SIGALRM);
            libc::sigprocmask(libc::SIG_UNBLOCK, &sigs, std::ptr::null_mut());
            let on = libc::itimerval { it_interval: libc::timeval { tv_sec: 0, tv_usec: 0 }, it_value: libc::timeval { tv_sec: 0, tv_usec: 3_000 } };
            libc::setitimer(libc::ITIMER_REAL, &on, std::ptr::null_mut());
            #[allow(static_mut_refs)]
            if let Some((s, qs, want)) = PREEMPT_B.as_ref() {
                for (q, w) in qs.iter().zip(want.iter()) {
                    let got = trap(|| (**s).ask(q));
                    if got.as_ref().ok() != Some(w) {
                        libc::_exit(3);
                    }
                }
            }
            let off = libc::itimerval { it_interval: libc::timeval { tv_sec: 0, tv_usec: 0 }, it_value: libc::timeval { tv_sec: 0, tv_usec: 0 } };
            libc::setitimer(libc::ITIMER_REAL, &off, std::ptr::null_mut());
            return; // resume A; the code after A's call checks its answer and exits
        }
        if pid < 0 {
            // fork failed (resource limit): the point is not explored; the run is marked non-exhaustive
            FORK_FAILURES.fetch_add(1, Relaxed);
            return;
        }
        let mut status = 0;
        libc::waitpid(pid, &mut status, 0);
        let code = if libc::WIFEXITED(status) { libc::WEXITSTATUS(status) } else { 100 + libc::WTERMSIG(status) };
        if code == 100 + libc::SIGALRM {
            BLOCKED_POINTS.fetch_add(1, Relaxed);
            // every following point is probed again (3 ms each while the blocking lasts): the instructions right after a
            // critical section - where a lock released too early shows - must not be skipped
            let _ = BACKOFF.load(Relaxed);
            return;
        }
        BACKOFF.store(1, Relaxed);
        if code != 0 {
            BAD_POINTS.fetch_add(1, Relaxed);
            if FIRST_BAD.load(Relaxed) == u64::MAX {
                FIRST_BAD.store(point, Relaxed);
                FIRST_BAD_CODE.store(code, Relaxed);
            }
        }
    }
}

#[inline(never)]
fn stepped_ask(s: &dyn Subj, q: &Q) -> Result<Ans, String> {
    unsafe {
        std::arch::asm!("pushfq", "or qword ptr [rsp], 0x100", "popfq");
    }
    let r = trap(|| s.ask(q));
    unsafe {
        std::arch::asm!("pushfq", "and qword ptr [rsp], -257", "popfq");
    }
    r
}

fn run_preempt(ctx: &mut Ctx, d: &SubjDesc, max_triples: usize, fresh_mode: u8) {
    let Some((master, alpha)) = make_subject(ctx, d, 400, true) else { return };
    // fresh_mode 0: the master itself is queried; otherwise it never is, and the purity pass runs on a copy of it
    let s: Arc<dyn Subj> = if fresh_mode == 0 { master.clone() } else { in_arena(true, || master.copy(fresh_mode)) };
    text_range();
    unsafe {
        let mut sa: libc::sigaction = std::mem::zeroed();
        sa.sa_sigaction = on_trap as *const () as usize;
        sa.sa_flags = libc::SA_SIGINFO;
        libc::sigemptyset(&mut sa.sa_mask);
        libc::sigaction(libc::SIGTRAP, &sa, std::ptr::null_mut());
    }
    let cheap: Vec<Q> = alpha.iter().filter(|q| !matches!(q, Q::IterSum | Q::OnesFrom(_) | Q::Len)).cloned().collect();
    // does any query write to the memory the structure owns?
    let dig0 = arena_digest();
    let mut writers: Vec<Q> = Vec::new();
    for q in &cheap {
        let before = arena_digest();
        let _ = ask(&*s, q);
        if arena_digest() != before {
            writers.push(q.clone());
        }
    }
    // transient writes (bytes restored by the end of the query) do not show in the digest: ask the MMU
    for q in &cheap {
        if !writers.contains(q) && writes_to_arena(|| {
            let _ = ask(&*s, q);
        }) {
            writers.push(q.clone());
            ctx.count("queries_with_transient_writes");
        }
    }
    let impure = !writers.is_empty() || arena_digest() != dig0;
    if impure {
        ctx.count("subjects_whose_queries_write_memory");
    } else {
        ctx.count("subjects_pure_under_the_arena_monitor");
    }
    // a fresh, never queried instance provides the reference answers
    let Some((fresh, _)) = make_subject(ctx, d, 400, false) else { return };
    let solo = |q: &Q| ask(&*fresh, q).unwrap_or(Some(u128::MAX));
    // A candidates: queries with a "neighbour" in the alphabet (k and k-1 / k+1 of the same method), first
    // the ones that write; B: a few far-away queries of the same kind; P: empty, predecessor, successor
    let key = |q: &Q| -> Option<(u8, u128, usize)> {
        match q {
            Q::Select(c, k) => Some((0, *c, *k)),
            Q::Select1(k) => Some((1, 0, *k)),
            Q::Select0(k) => Some((2, 0, *k)),
            Q::Rank(c, i) => Some((3, *c, *i)),
            Q::Rank1(i) => Some((4, 0, *i)),
            Q::Get(i) => Some((5, 0, *i)),
            Q::RankPf(c, i) => Some((6, *c, *i)),
            _ => None,
        }
    };
    let valid: Vec<Q> = cheap.iter().filter(|q| solo(q).is_some() && solo(q) != Some(u128::MAX)).cloned().collect();
    let mut a_list: Vec<Q> = writers.iter().filter(|q| valid.contains(q)).cloned().collect();
    for q in &valid {
        if let Some((m, c, k)) = key(q) {
            if valid.iter().any(|p| key(p) == Some((m, c, k.wrapping_sub(1)))) && !a_list.contains(q) {
                a_list.push(q.clone());
            }
        }
    }
    if a_list.is_empty() {
        a_list = valid.iter().take(4).cloned().collect();
    }
    // token exploration for pure subjects (keeps the machinery exercised), full budget otherwise
    let budget = if impure { max_triples } else { 1 };
    // every preemption point costs a fork: bound the points per subject and say so when the bound is hit
    let point_cap: u64 = if ctx.thorough() { 120_000 } else { 12_000 };
    let mut points_total = 0u64;
    let mut triples = 0usize;
    let saved = ctx.case_desc.clone();
    'outer: for a in &a_list {
        let (m, c, k) = key(a).unwrap_or((9, 0, 0));
        let mut prefixes: Vec<Vec<Q>> = vec![vec![]];
        for p in &valid {
            if let Some((pm, pc, pk)) = key(p) {
                if pm == m && pc == c && (pk == k.wrapping_sub(1) || pk == k + 1 || pk == k) {
                    prefixes.push(vec![p.clone()]);
                }
            }
        }
        // interfering queries: same method on another symbol, same method and symbol far away, another writer
        let mut bs: Vec<Q> = Vec::new();
        if let Some(b) = valid.iter().find(|b| key(b).map_or(false, |(bm, bc, _)| bm == m && bc != c)) {
            bs.push(b.clone());
        }
        if let Some(b) = valid.iter().rev().find(|b| key(b).map_or(false, |(bm, bc, _)| bm == m && bc != c)) {
            bs.push(b.clone());
        }
        bs.extend(valid.iter().filter(|b| key(b).map_or(false, |(bm, bc, bk)| bm == m && bc == c && bk.abs_diff(k) > 40)).take(2).cloned());
        if let Some(w) = writers.iter().find(|w| *w != a && valid.contains(w) && key(w).map_or(true, |(wm, _, _)| wm != m)) {
            bs.push(w.clone());
        }
        // a query of the same method that has no answer (occurrence / position just out of range)
        if let Some(b) = cheap.iter().find(|b| key(b).map_or(false, |(bm, _, _)| bm == m) && solo(b).is_none()) {
            bs.push(b.clone());
        }
        bs.dedup();
        if bs.is_empty() {
            bs = valid.iter().filter(|b| *b != a).take(2).cloned().collect();
        }
        for p in &prefixes {
            for b in &bs {
                if triples >= budget {
                    break 'outer;
                }
                if points_total >= point_cap {
                    ctx.count("preemption_point_cap_hit");
                    ctx.add("caps_hit", 1);
                    break 'outer;
                }
                triples += 1;
                // the instance this triple runs on
                let s: Arc<dyn Subj> = if fresh_mode == 0 { s.clone() } else { in_arena(true, || master.copy(fresh_mode)) };
                // sequential prefix
                for q in p {
                    let _ = ask(&*s, q);
                }
                let want_a = solo(a);
                let bq = vec![b.clone()];
                let bw: Vec<Ans> = bq.iter().map(|q| solo(q)).collect();
                unsafe {
                    PREEMPT_B = Some((&*s as *const dyn Subj, bq.clone(), bw));
                }
                POINTS.store(0, SeqCst);
                SKIP_UNTIL.store(0, SeqCst);
                BACKOFF.store(1, SeqCst);
                BAD_POINTS.store(0, SeqCst);
                FIRST_BAD.store(u64::MAX, SeqCst);
                STEP_ON.store(true, SeqCst);
                let got = stepped_ask(&*s, a);
                STEP_ON.store(false, SeqCst);
                if IN_CHILD.load(Relaxed) {
                    // we are a forked child that resumed A after the preemption: verdict by exit status
                    let ok = got.as_ref().ok() == Some(&want_a);
                    unsafe { libc::_exit(if ok { 0 } else { 4 }) };
                }
                let pts = POINTS.load(SeqCst);
                points_total += pts;
                ctx.evals += pts;
                ctx.add("preemption_points_explored", pts);
                ctx.add("schedules", pts);
                ctx.add("states", pts);
                ctx.add("transitions", pts * 2);
                ctx.add("traces_validated", pts);
                if got.as_ref().ok() != Some(&want_a) {
                    ctx.violation("query after a history", "", format!("{a:?} after {p:?} (no preemption)"), format!("{want_a:?}"), format!("{got:?}"));
                }
                let bad = BAD_POINTS.load(SeqCst);
                if bad > 0 {
                    let code = FIRST_BAD_CODE.load(SeqCst);
                    ctx.case_desc = saved.clone();
                    ctx.violation(
                        "preempted query (instruction-level schedule)",
                        "",
                        format!("after {p:?}: {a:?} preempted by {b:?} at instruction boundary #{} of {} (inside the executable)", FIRST_BAD.load(SeqCst), pts),
                        "both queries obtain their sequential answers at every preemption point".into(),
                        format!("{bad} of {pts} preemption points give a wrong answer; first: {}", match code {
                            3 => "the preempting query answered wrongly".to_string(),
                            4 => "the preempted query answered wrongly after it resumed".to_string(),
                            c => format!("the child ended with status {c}"),
                        }),
                    );
                    break 'outer;
                }
            }
        }
    }
    ctx.add("preemption_triples", triples as u64);
    let blocked = BLOCKED_POINTS.swap(0, SeqCst);
    if blocked > 0 {
        ctx.add("preemption_points_where_the_interfering_query_blocked", blocked);
    }
    let ff = FORK_FAILURES.swap(0, SeqCst);
    if ff > 0 {
        ctx.add("caps_hit", 1);
        ctx.add("preemption_points_skipped_fork_failed", ff);
    }
}

impl Case for CCase {
    fn run(&self, ctx: &mut Ctx) {
        match self {
            CCase::Hist { subj, depth, cap, origin } => run_hist(ctx, self, subj, *depth, *cap, *origin),
            CCase::History { subj, cap, queries, origin } => run_history(ctx, subj, *cap, queries, *origin),
            CCase::Sched { subj, threads, per_thread, batches } => run_sched(ctx, subj, *threads, *per_thread, *batches),
            CCase::Stress { subj, threads, rounds } => run_stress(ctx, subj, *threads, *rounds),
            CCase::Preempt { subj, max_triples, fresh } => run_preempt(ctx, subj, *max_triples, *fresh),
        }
    }
    fn weight(&self) -> u64 {
        50_000_000
    }
}

fn subjects(th: bool) -> Vec<SubjDesc> {
    let mut v = Vec::new();
    let seqs: Vec<(Gen, &str)> = vec![
        (Gen::Boundary { n: 9000, pat: Pat::Periodic, sigma: 17 }, "id"),
        (Gen::Boundary { n: 5000, pat: Pat::Runs(128), sigma: 5 }, "id"),
        (Gen::Boundary { n: 8300, pat: Pat::Blocks, sigma: 4 }, "id"),
        (Gen::Huff { freqs: vec![3, 5, 9, 700, 900, 2500, 4100], arr: 2 }, "id"),
    ];
    let aliases: Vec<&str> = PLAIN_QUAD.iter().chain(HUFF_QUAD.iter()).copied().chain(["WT", "HWT"]).collect();
    for (i, (g, vm)) in seqs.iter().enumerate() {
        for (j, al) in aliases.iter().enumerate() {
            // every alias meets two of the inputs in the quick tier, all of them in the thorough tier
            if !th && (i + j) % 2 == 1 {
                continue;
            }
            let huff = al.starts_with('H');
            v.push(SubjDesc::Tree { alias: al.to_string(), elem: if (i + j) % 3 == 0 { "u16".into() } else { "u8".into() }, gen: g.clone(), vmap: if huff { "hid".into() } else { vm.to_string() } });
        }
    }
    for ty in ["RSQVector256", "RSQVector512"] {
        v.push(SubjDesc::Quad { ty: ty.into(), gen: Gen::Boundary { n: 9000, pat: Pat::Periodic, sigma: 4 } });
        v.push(SubjDesc::Quad { ty: ty.into(), gen: Gen::Boundary { n: 8300, pat: Pat::Blocks, sigma: 4 } });
        v.push(SubjDesc::Quad { ty: ty.into(), gen: Gen::Boundary { n: 20000, pat: Pat::Runs(2048), sigma: 3 } });
        // long inputs with a rare symbol: its select searches a range of more than 64 superblocks (every tier of the search)
        v.push(SubjDesc::Quad { ty: ty.into(), gen: Gen::Boundary { n: 150_000, pat: Pat::Rare(1), sigma: 2 } });
        v.push(SubjDesc::Quad { ty: ty.into(), gen: Gen::Boundary { n: 300_000, pat: Pat::ConstThenPeriodic, sigma: 4 } });
    }
    // element types whose trees are deeper than 32 levels (binary: 64 / 128 levels; quad: 32 / 64)
    for (al, elem, vm) in [("WT", "u64", "spread"), ("WT", "u128", "wide"), ("QWT256", "u128", "wide"), ("QWT512Pfs", "u64", "spread")] {
        v.push(SubjDesc::Tree { alias: al.into(), elem: elem.into(), gen: Gen::Boundary { n: 3000, pat: Pat::Periodic, sigma: 5 }, vmap: vm.into() });
    }
    for al in ["QWT256", "QWT512Pfs", "HQWT256", "WT"] {
        v.push(SubjDesc::Tree { alias: al.into(), elem: "u8".into(), gen: Gen::Boundary { n: 150_000, pat: Pat::Rare(2), sigma: 9 }, vmap: if al.starts_with('H') { "hid".into() } else { "id".into() } });
    }
    let bitgens = vec![
        BitGen::Pat { n: 70_000, pat: BitPat::Alt },
        BitGen::Pat { n: 40_000, pat: BitPat::Runs(512) },
        BitGen::Pat { n: 70_000, pat: BitPat::OnePer(7) },
        BitGen::Groups { groups: vec![Grp::D, Grp::S, Grp::D], partial: 200, pk: Grp::D, lead: 3, tail: 9, complement: false },
        // very sparse / very dense long vectors: the select searches cross many blocks between two samples
        BitGen::Pat { n: 600_000, pat: BitPat::OnePer(65537) },
        BitGen::Pat { n: 600_000, pat: BitPat::ZeroPer(65537) },
        // more than one select-hint period of ones (8192) at density 1/9: one hint range spans > 16 RSWide superblocks
        // and ends inside the directory (round 6, seed C18-15)
        BitGen::Pat { n: 150_000, pat: BitPat::OnePer(9) },
    ];
    for g in &bitgens {
        for ty in ["RSNarrow", "RSWide"] {
            v.push(SubjDesc::Bin { ty: ty.into(), gen: g.clone() });
        }
        v.push(SubjDesc::DArr { sel0: true, gen: g.clone() });
        v.push(SubjDesc::DArr { sel0: false, gen: g.clone() });
        v.push(SubjDesc::Bits { gen: g.clone() });
    }
    v
}

fn enumerate(args: &Args) -> Vec<CCase> {
    let th = args.tier == "thorough";
    let mut v = Vec::new();
    for s in subjects(th) {
        v.push(CCase::Hist { subj: s.clone(), depth: 2, cap: if th { 200 } else { 130 }, origin: 0 });
        // the same histories on a clone and on a deserialized copy (states the constructors do not produce directly)
        for origin in if th { vec![1u8, 2, 3] } else { vec![2u8, 3] } {
            v.push(CCase::Hist { subj: s.clone(), depth: if th { 2 } else { 1 }, cap: if th { 100 } else { 130 }, origin });
        }
        if th {
            v.push(CCase::Hist { subj: s.clone(), depth: 3, cap: 64, origin: 0 });
        }
        v.push(CCase::Sched { subj: s.clone(), threads: 2, per_thread: 3, batches: if th { 12 } else { 3 } });
        v.push(CCase::Sched { subj: s.clone(), threads: 3, per_thread: 2, batches: if th { 6 } else { 1 } });
        v.push(CCase::Stress { subj: s.clone(), threads: 8, rounds: if th { 40 } else { 8 } });
        for fresh in 0..4u8 {
            if !th && fresh == 1 {
                continue; // the clone() route only in the thorough tier (clone_from and the round trip stay)
            }
            v.push(CCase::Preempt { subj: s.clone(), max_triples: if th { 1200 } else if fresh == 0 { 260 } else { 90 }, fresh });
        }
    }
    v
}

fn main() {
    main_with::<CCase>(enumerate);
}
