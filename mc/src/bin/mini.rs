//! Miniature of the C04 sweep without processes, signals or fork, so that it can run under Miri
//! (`cargo +nightly miri run --bin mini`): small states of every type, every safe query with the
//! boundary argument alphabet. Miri reports undefined behaviour (out-of-bounds `get_unchecked`, invalid
//! pointer use, uninitialised reads); panics are caught and ignored here (they are mc_safety's subject).
use mc::trees::*;
use mc::vecs::*;
use mc::with_tree;
use qwt::{AccessBin, AccessQuad, BitVector, BitVectorMut, DArray, QVector, RSNarrow, RSQVector256, RSQVector512, RSWide, RankBin, SelectBin};
use std::panic::{catch_unwind, AssertUnwindSafe};

static mut CALLS: u64 = 0;

fn call<R>(f: impl FnOnce() -> R) {
    unsafe {
        CALLS += 1;
    }
    let _ = catch_unwind(AssertUnwindSafe(f));
}

fn idx(n: usize) -> Vec<usize> {
    let mut v = vec![0, 1, n.wrapping_sub(1), n, n + 1, 63, 64, 65, 255, 256, 257, 511, 512, 513, usize::MAX];
    v.sort_unstable();
    v.dedup();
    v
}

fn bits_of(n: usize) -> Vec<bool> {
    (0..n).map(|i| (i * 7 + i / 13) % 5 < 2).collect()
}

fn tree<X: Tree>(part: usize) {
    let cap: u128 = if X::HUFF { 300 } else if X::T::BITS == 128 { u128::MAX } else { (1u128 << X::T::BITS) - 1 };
    let mut states: Vec<X> = vec![];
    if part == 0 {
        states.push(X::default());
        states.push(X::from_vec(vec![]));
    }
    for &n in [&[1usize, 5][..], &[70], &[300]][part.min(2)] {
        let v: Vec<X::T> = (0..n).map(|i| X::T::from_u128(((i * 7 + i / 3) % 17) as u128 * (cap / 16).max(1))).collect();
        states.push(X::from_vec(v));
    }
    for t in &states {
        let n = t.len_();
        for &i in &idx(n) {
            call(|| t.get_(i));
            for s in [0u128, 1, 5, 16, 17, cap / 16, cap, cap.saturating_add(1)] {
                let c = X::T::from_u128(s.min(if X::T::BITS == 128 { u128::MAX } else { (1u128 << X::T::BITS) - 1 }));
                call(|| t.rank_(c, i));
                call(|| t.select_(c, i));
                call(|| t.rank_prefetch_(c, i));
            }
        }
        call(|| t.iter_().count());
        call(|| t.clone().into_iter_().rev().count());
        call(|| bincode::deserialize::<X>(&bincode::serialize(t).unwrap()).is_ok());
    }
}

fn quad<X: QuadRS>() {
    let mut states = vec![X::default(), X::new_u8(&[])];
    for n in [1usize, 255, 256, 257, 600, 2100] {
        states.push(X::new_u8(&(0..n).map(|i| ((i * 5 + i / 11) % 7 % 4) as u8).collect::<Vec<u8>>()));
    }
    for t in &states {
        let n = t.len_();
        for &i in &idx(n) {
            call(|| t.get(i));
            t.prefetch_info(i);
            t.prefetch_data(i);
            for s in [0u8, 1, 2, 3, 4, 255] {
                call(|| t.rank(s, i));
                call(|| t.select(s, i));
                call(|| t.occs(s));
                call(|| t.occs_smaller(s));
            }
        }
        call(|| t.iter_vec().len());
    }
}

fn bin<X: BinRS>() {
    let mut states = vec![X::default(), X::new_(BitVector::default())];
    for n in [1usize, 64, 511, 512, 513, 4097] {
        states.push(X::new_(bits_of(n).into_iter().collect()));
    }
    for t in &states {
        let n = t.n_ones_() + t.n_zeros_inherent();
        for &i in &idx(n) {
            call(|| t.get(i));
            call(|| t.rank1(i));
            call(|| t.rank0(i));
            call(|| t.select1(i));
            call(|| t.select0(i));
        }
        call(|| RankBin::n_zeros(t));
    }
}

fn bitvecs(n: usize) {
    let b: BitVector = bits_of(n).into_iter().collect();
    let m: BitVectorMut = bits_of(n).into_iter().collect();
    for &i in &idx(n) {
        call(|| b.get(i));
        call(|| m.get(i));
        for l in [0usize, 1, 63, 64, 65, usize::MAX] {
            call(|| b.get_bits(i, l));
            call(|| m.get_bits(i, l));
        }
        call(|| b.get_word(i));
        call(|| b.ones_with_pos(i).take(50).count());
        call(|| m.zeros_with_pos(i).take(50).count());
        call(|| {
            let mut c = m.clone();
            c.set(i, true);
            c.set_bits(i, 7, 0x55);
            c.push(true);
            c.extend_with_zeros(i % 1000);
            c.count_ones()
        });
    }
    call(|| b.iter().count() + b.ones().count() + b.zeros().count());
    call(|| b.clone().into_iter().count());
    let d: DArray<true> = bits_of(n).into_iter().collect();
    for &i in &idx(n) {
        call(|| d.select1(i));
        call(|| d.select0(i));
        call(|| d.get(i));
    }
    let q: QVector = (0..n).map(|i| (i % 4) as u8).collect();
    for &i in &idx(n) {
        call(|| q.get(i));
    }
    call(|| q.iter().count());
}

fn sparse_darray() {
    // a sparse-then-dense DArray
    let pos: Vec<usize> = (0..1024).map(|i| i * 70).chain((0..1100).map(|i| 1024 * 70 + i)).collect();
    let d: DArray<false> = pos.iter().copied().collect();
    for k in [0usize, 1, 1023, 1024, 1025, 2000, 2123, 2124, usize::MAX] {
        call(|| d.select1(k));
    }
}

/// usage: mini [k n]  - runs the work units whose index is congruent to k modulo n (default: all).
fn main() {
    std::panic::set_hook(Box::new(|_| {}));
    let a: Vec<usize> = std::env::args().skip(1).filter_map(|x| x.parse().ok()).collect();
    let (k, n) = if a.len() == 2 { (a[0], a[1].max(1)) } else { (0, 1) };
    let mut units: Vec<Box<dyn Fn()>> = vec![];
    // heaviest first (128-level trees), so that round-robin assignment balances
    for part in [2usize, 1, 0] {
        for elem in ["u128", "u64", "u8"] {
            for alias in ["QWT256", "QWT512Pfs", "HQWT256", "HQWT512Pfs", "WT", "HWT"] {
                units.push(Box::new(move || with_tree!(alias, elem, tree(part))));
            }
        }
    }
    for len in [1100usize, 513, 512, 511, 65, 64, 63, 1, 0] {
        units.push(Box::new(move || bitvecs(len)));
    }
    units.push(Box::new(sparse_darray));
    units.push(Box::new(quad::<RSQVector256>));
    units.push(Box::new(quad::<RSQVector512>));
    units.push(Box::new(bin::<RSNarrow>));
    units.push(Box::new(bin::<RSWide>));
    let mut ran = 0;
    for (i, u) in units.iter().enumerate() {
        if i % n == k {
            u();
            ran += 1;
        }
    }
    println!("mini: part {k}/{n}: {ran} of {} units, {} calls, no undefined behaviour reported", units.len(), unsafe { CALLS });
}
