//! History explorers (E2): C08 bit vectors under any operation history (stateright BFS over the real
//! BitVectorMut next to a Vec<bool>), C13 quad vector builder (stateright BFS), C12 iterator call
//! histories (exhaustive enumeration with re-execution: the iterators are not Clone).
use mc::bvobs::*;
use mc::gens::*;
use mc::iterops::*;
use mc::refm::RefBits;
use mc::run::*;
use mc::trees::*;
use mc::with_tree;
use qwt::{AccessQuad, BitVector, BitVectorMut, DArray, QVector, QVectorBuilder, RSQVector256, RSQVector512};
use serde::{Deserialize, Serialize};
use stateright::{Checker, Model, Property};
use std::collections::VecDeque;
use std::hash::{Hash, Hasher};
use std::sync::Mutex;

// ------------------------------------------------------------------------------------------------
// C08: BitVectorMut histories

#[derive(Debug, Clone, Copy, Serialize, Deserialize, PartialEq, Eq, Hash)]
enum BvStart {
    Empty,
    WithCapacity(usize),
    Zeros(usize),
    Ones(usize),
    Alt(usize),
}

#[derive(Debug, Clone, Copy, Serialize, Deserialize, PartialEq, Eq, Hash)]
enum BvAct {
    Push(bool),
    Append(u64, u8),
    ExtZeros(usize),
    Set(usize, bool),
    SetBits(usize, u8, u64),
    ExtBools(u8),
    ExtPos(u8),
    /// operations that must leave the sequence unchanged and the value usable: 0 bincode round trip, 1 conversion to
    /// BitVector and back, 2 shrink_to_fit, 3 collect of its own iterator, 4 clone(), 5..=7 clone_from() into a value
    /// that held something else (empty / 3 zeros / 2000 ones with spare capacity)
    Same(u8),
}

fn bv_start(s: BvStart) -> (BitVectorMut, Vec<bool>) {
    match s {
        BvStart::Empty => (BitVectorMut::new(), vec![]),
        BvStart::WithCapacity(c) => (BitVectorMut::with_capacity(c), vec![]),
        BvStart::Zeros(n) => (BitVectorMut::with_zeros(n), vec![false; n]),
        BvStart::Ones(n) => {
            let mut b = BitVectorMut::new();
            for _ in 0..n {
                b.push(true);
            }
            (b, vec![true; n])
        }
        BvStart::Alt(n) => {
            let v: Vec<bool> = (0..n).map(|i| i % 2 == 0).collect();
            (v.iter().copied().collect(), v)
        }
    }
}

const APPENDS: [(u64, u8); 7] = [(0, 0), (1, 1), (0, 1), (0b101, 3), (1 << 63, 64), (u64::MAX, 64), (0x5555_5555_5555_5555, 63)];
const EXT_ZEROS: [usize; 7] = [0, 1, 63, 64, 65, 511, 512];
const SETBITS: [(u8, u64); 6] = [(1, 1), (4, 0b1111), (4, 0), (64, u64::MAX), (64, 0), (7, 0b1010101)];

fn ext_bools(k: u8) -> Vec<bool> {
    match k {
        0 => vec![],
        1 => vec![true],
        _ => vec![true, false, true, true],
    }
}
fn ext_pos(k: u8, n: usize) -> Vec<usize> {
    match k {
        0 => vec![n],
        1 => vec![n + 70],
        2 => vec![0, n + 600],
        _ => vec![5, 2],
    }
}

fn bv_actions(n: usize, out: &mut Vec<BvAct>) {
    out.push(BvAct::Push(false));
    out.push(BvAct::Push(true));
    for (b, l) in APPENDS {
        out.push(BvAct::Append(b, l));
    }
    for z in EXT_ZEROS {
        out.push(BvAct::ExtZeros(z));
    }
    let mut idx: Vec<usize> = vec![0, 63, 64, n / 2, n.wrapping_sub(2), n.wrapping_sub(1)];
    idx.retain(|&i| i < n);
    idx.sort_unstable();
    idx.dedup();
    for i in idx {
        out.push(BvAct::Set(i, false));
        out.push(BvAct::Set(i, true));
    }
    for (l, bits) in SETBITS {
        let mut st: Vec<usize> = vec![0, 60, n.wrapping_sub(l as usize), 500];
        st.retain(|&i| i.checked_add(l as usize).map_or(false, |e| e <= n));
        st.sort_unstable();
        st.dedup();
        for i in st {
            out.push(BvAct::SetBits(i, l, bits));
        }
    }
    for k in 0..3 {
        out.push(BvAct::ExtBools(k));
    }
    for k in 0..4 {
        out.push(BvAct::ExtPos(k));
    }
}

/// copy operations (at most one per history: they open a lineage of their own in the state space)
fn bv_copy_actions(out: &mut Vec<BvAct>) {
    for k in [0u8, 1, 5, 6, 7] {
        out.push(BvAct::Same(k));
    }
}

fn apply_ref(bits: &mut Vec<bool>, a: BvAct) {
    match a {
        BvAct::Push(b) => bits.push(b),
        BvAct::Append(v, l) => {
            for j in 0..l {
                bits.push((v >> j) & 1 == 1);
            }
        }
        BvAct::ExtZeros(z) => bits.extend(std::iter::repeat(false).take(z)),
        BvAct::Set(i, b) => bits[i] = b,
        BvAct::SetBits(i, l, v) => {
            for j in 0..l as usize {
                bits[i + j] = (v >> j) & 1 == 1;
            }
        }
        BvAct::ExtBools(k) => bits.extend(ext_bools(k)),
        BvAct::ExtPos(k) => {
            let n = bits.len();
            for p in ext_pos(k, n) {
                if p >= bits.len() {
                    bits.resize(p + 1, false);
                }
                bits[p] = true;
            }
        }
        BvAct::Same(_) => {}
    }
}

fn apply_real(b: &mut BitVectorMut, a: BvAct) {
    match a {
        BvAct::Push(x) => b.push(x),
        BvAct::Append(v, l) => b.append_bits(v, l as usize),
        BvAct::ExtZeros(z) => b.extend_with_zeros(z),
        BvAct::Set(i, x) => b.set(i, x),
        BvAct::SetBits(i, l, v) => b.set_bits(i, l as usize, v),
        BvAct::ExtBools(k) => b.extend(ext_bools(k)),
        BvAct::ExtPos(k) => {
            let n = b.len();
            b.extend(ext_pos(k, n))
        }
        BvAct::Same(0) => *b = bincode::deserialize(&bincode::serialize(&*b).unwrap()).unwrap(),
        BvAct::Same(1) => *b = BitVectorMut::from(BitVector::from(std::mem::take(b))),
        BvAct::Same(2) => b.shrink_to_fit(),
        BvAct::Same(3) => *b = b.iter().collect(),
        BvAct::Same(4) => *b = b.clone(),
        BvAct::Same(k) => {
            let mut d = match k {
                5 => BitVectorMut::new(),
                6 => BitVectorMut::with_zeros(3),
                _ => {
                    let mut d = BitVectorMut::with_capacity(5000);
                    for _ in 0..2000 {
                        d.push(true);
                    }
                    d
                }
            };
            d.clone_from(b);
            *b = d;
        }
    }
}

#[derive(Clone)]
struct BvSt {
    bits: Vec<bool>,
    real: BitVectorMut,
    poison: Option<String>,
    depth: u8,
    /// everything observable about hidden state: len, ones counter, all words of all lines
    hidden: Vec<u64>,
    /// which copy operations (BvAct::Same) lie on the path, and where: a copy may differ from the value it copies in
    /// state no observation shows yet (spare lines, capacity), so it must not be merged with it
    lineage: u64,
}

fn hidden_of(b: &BitVectorMut) -> Vec<u64> {
    trap(|| {
        let n = b.len();
        let mut v = vec![n as u64, b.count_ones() as u64];
        for w in 0..((n + 511) / 512) * 8 {
            v.push(b.get_word(w));
        }
        v
    })
    .unwrap_or_else(|_| vec![u64::MAX])
}

impl std::fmt::Debug for BvSt {
    fn fmt(&self, f: &mut std::fmt::Formatter<'_>) -> std::fmt::Result {
        write!(f, "BvSt(len {}, depth {})", self.bits.len(), self.depth)
    }
}
impl PartialEq for BvSt {
    fn eq(&self, o: &Self) -> bool {
        self.bits == o.bits && self.depth == o.depth && self.hidden == o.hidden && self.poison.is_some() == o.poison.is_some() && self.lineage == o.lineage
    }
}
impl Eq for BvSt {}
impl Hash for BvSt {
    fn hash<H: Hasher>(&self, h: &mut H) {
        self.bits.hash(h);
        self.depth.hash(h);
        self.hidden.hash(h);
        self.lineage.hash(h);
        self.poison.is_some().hash(h);
    }
}

static SCRATCH: Mutex<Option<Ctx>> = Mutex::new(None);

struct BvModel {
    start: BvStart,
    /// actions applied to the start state before the exploration begins (splits one deep exploration
    /// over several processes)
    prefix: Vec<BvAct>,
    max_depth: u8,
}

fn bv_state_ok(s: &BvSt) -> bool {
    if s.poison.is_some() {
        return false;
    }
    let mut g = SCRATCH.lock().unwrap();
    let ctx = g.as_mut().unwrap();
    let before = unclassified(ctx);
    ctx.case_desc = serde_json::to_value(HCase::BvBits { bits: bits_string(&s.bits) }).unwrap();
    let r = RefBits::new(&s.bits);
    observe_bvm(ctx, &s.real, &r, false);
    observe_conversions(ctx, &s.real, &r, false);
    ctx.count("states_observed");
    unclassified(ctx) == before
}

/// number of violations recorded without a class (classified ones are candidates for the
/// known-findings list: they are reported, but must not stop the exploration)
fn unclassified(ctx: &Ctx) -> u64 {
    ctx.viol_counts.iter().filter(|(k, _)| k.split('|').nth(2) == Some("")).map(|(_, c)| *c).sum()
}

impl Model for BvModel {
    type State = BvSt;
    type Action = BvAct;
    fn init_states(&self) -> Vec<BvSt> {
        let (mut real, mut bits) = bv_start(self.start);
        let mut poison = None;
        for &a in &self.prefix {
            apply_ref(&mut bits, a);
            if poison.is_none() {
                poison = trap(|| apply_real(&mut real, a)).err();
            }
        }
        let hidden = hidden_of(&real);
        let lineage = self.prefix.iter().fold(0u64, |l, a| if let BvAct::Same(k) = a { h64(&(l, 0u8, *k)) } else { l });
        vec![BvSt { bits, real, poison, depth: 0, hidden, lineage }]
    }
    fn actions(&self, s: &BvSt, out: &mut Vec<BvAct>) {
        if s.poison.is_none() && s.depth < self.max_depth {
            bv_actions(s.bits.len(), out);
            if s.lineage == 0 {
                bv_copy_actions(out);
            }
        }
    }
    fn next_state(&self, s: &BvSt, a: BvAct) -> Option<BvSt> {
        let mut bits = s.bits.clone();
        apply_ref(&mut bits, a);
        let mut real = s.real.clone();
        let poison = trap(|| apply_real(&mut real, a)).err();
        let hidden = hidden_of(&real);
        let lineage = if let BvAct::Same(k) = a { h64(&(s.lineage, s.depth, k)) } else { s.lineage };
        Some(BvSt { bits, real, poison, depth: s.depth + 1, hidden, lineage })
    }
    fn properties(&self) -> Vec<Property<Self>> {
        vec![Property::always("every observation equals the plain sequence of booleans", |_, s: &BvSt| bv_state_ok(s))]
    }
}

fn bits_string(b: &[bool]) -> String {
    b.iter().map(|&x| if x { '1' } else { '0' }).collect()
}

fn replay_bv_history(ctx: &mut Ctx, start: BvStart, actions: &[BvAct], full: bool) {
    let (mut real, mut bits) = bv_start(start);
    for (j, &a) in actions.iter().enumerate() {
        apply_ref(&mut bits, a);
        if ctx.total("mutator", "", j as u128, 0, 0, || apply_real(&mut real, a)).is_none() {
            return;
        }
    }
    let r = RefBits::new(&bits);
    observe_bvm(ctx, &real, &r, full);
    observe_conversions(ctx, &real, &r, full);
}

fn run_bv_model(ctx: &mut Ctx, start: BvStart, prefix: &[BvAct], depth: u8) {
    ctx.set_ty("BitVectorMut");
    let mut scratch = Ctx::new(&ctx.property, &ctx.profile, &ctx.tier);
    scratch.ty = ctx.ty;
    scratch.case_index = ctx.case_index;
    *SCRATCH.lock().unwrap() = Some(scratch);
    let checker = BvModel { start, prefix: prefix.to_vec(), max_depth: depth }.checker().threads(1).spawn_bfs().join();
    let unique = checker.unique_state_count() as u64;
    let total = checker.state_count() as u64;
    ctx.add("states", unique);
    ctx.add("transitions", total.saturating_sub(1));
    ctx.add("traces_validated", total.saturating_sub(1));
    ctx.maxi("max_depth", checker.max_depth() as u64);
    ctx.note_input(&(format!("{start:?}{prefix:?}"), depth), true);
    let disc = checker.discoveries();
    let mut scratch = SCRATCH.lock().unwrap().take().unwrap();
    ctx.absorb(&mut scratch, |v| v.class != "");
    for (_name, path) in disc {
        let mut actions: Vec<BvAct> = prefix.to_vec();
        actions.extend(path.into_actions());
        ctx.count("counterexample_paths");
        let saved = ctx.case_desc.clone();
        ctx.case_desc = serde_json::to_value(HCase::BvHist { start, actions: actions.clone() }).unwrap();
        let before = ctx.total_viols;
        replay_bv_history(ctx, start, &actions, false);
        if ctx.total_viols == before {
            ctx.violation("<explorer>", "nondeterministic", format!("{actions:?}"), "counterexample reproduces".into(), "did not reproduce on re-execution".into());
        }
        ctx.case_desc = saved;
    }
}

// ------------------------------------------------------------------------------------------------
// C13: QVectorBuilder histories

#[derive(Debug, Clone, Copy, Serialize, Deserialize, PartialEq, Eq, Hash)]
enum QvAct {
    Push(u8),
    /// extend with list `1` of values typed as integer type `0` (index into INT_TYPES)
    Extend(u8, u8),
    /// the builder is replaced by a copy of itself: 0 clone(), 1..=3 clone_from() into a builder that held something else
    /// (empty / 3 symbols / 700 symbols)
    Same(u8),
}

const PUSHES: [u8; 8] = [0, 1, 2, 3, 4, 7, 252, 255];
const INT_TYPES: [&str; 12] = ["i8", "i16", "i32", "i64", "i128", "isize", "u8", "u16", "u32", "u64", "u128", "usize"];

/// the raw values of extend list `l` as i128 plus flags (MIN / MAX of the type are substituted)
fn ext_list(l: u8) -> Vec<i128> {
    // -1000 stands for T::MIN, 1000 for T::MAX
    match l {
        0 => vec![],
        1 => vec![3],
        2 => vec![0, 1, 2, 3],
        3 | 4 | 5 | 6 => {
            // 130, 64, 128 and 257 values: longer than a 128-symbol word / a 256-symbol line
            let n = [130usize, 64, 128, 257][(l - 3) as usize];
            let pool = [0i128, 1, 2, 3, 5, -1, -2, -1000, 1000];
            (0..n).map(|i| pool[(i * 7 + i / 9) % pool.len()]).collect()
        }
        _ => vec![],
    }
}

macro_rules! typed_extend {
    ($b:expr, $vals:expr, $refv:expr, $t:ty, $signed:expr) => {{
        let vs: Vec<$t> = $vals
            .iter()
            .map(|&v| match v {
                -1000 => <$t>::MIN,
                1000 => <$t>::MAX,
                x if x < 0 && !$signed => (x as i128).unsigned_abs() as $t, // unsigned types: use |x|
                x => x as $t,
            })
            .collect();
        for &x in &vs {
            // the two least significant bits of the two's complement representation
            $refv.push(((x as i128) & 3) as u8);
        }
        if let Some(b) = $b {
            b.extend(vs);
        }
    }};
}

fn qv_apply(b: Option<&mut QVectorBuilder>, refv: &mut Vec<u8>, a: QvAct) {
    match a {
        QvAct::Push(v) => {
            refv.push(v & 3);
            if let Some(b) = b {
                b.push(v);
            }
        }
        QvAct::Same(k) => {
            if let Some(b) = b {
                if k == 0 {
                    *b = b.clone();
                } else {
                    let mut d = QVectorBuilder::new();
                    for i in 0..[0usize, 3, 700][(k - 1) as usize] {
                        d.push((i % 4) as u8);
                    }
                    d.clone_from(b);
                    *b = d;
                }
            }
        }
        QvAct::Extend(t, l) => {
            let vals = ext_list(l);
            match INT_TYPES[t as usize] {
                "i8" => typed_extend!(b, vals, refv, i8, true),
                "i16" => typed_extend!(b, vals, refv, i16, true),
                "i32" => typed_extend!(b, vals, refv, i32, true),
                "i64" => typed_extend!(b, vals, refv, i64, true),
                "i128" => typed_extend!(b, vals, refv, i128, true),
                "isize" => typed_extend!(b, vals, refv, isize, true),
                "u8" => typed_extend!(b, vals, refv, u8, false),
                "u16" => typed_extend!(b, vals, refv, u16, false),
                "u32" => typed_extend!(b, vals, refv, u32, false),
                "u64" => typed_extend!(b, vals, refv, u64, false),
                "u128" => typed_extend!(b, vals, refv, u128, false),
                _ => typed_extend!(b, vals, refv, usize, false),
            }
        }
    }
}

fn qv_actions(out: &mut Vec<QvAct>) {
    for v in PUSHES {
        out.push(QvAct::Push(v));
    }
    for t in 0..INT_TYPES.len() as u8 {
        for l in 0..7 {
            out.push(QvAct::Extend(t, l));
        }
    }
}

fn qv_copy_actions(out: &mut Vec<QvAct>) {
    for k in 1..4 {
        out.push(QvAct::Same(k));
    }
}

/// start kind (`how`, or `cap_flag` when how = 0): 0 = new() then pushes, 1 = with_capacity(len + 7) then pushes, 2 = the
/// builder collected from an iterator (FromIterator), 3 = new() then one extend
fn qv_start(len: usize, cap_flag: bool, how: u8) -> (QVectorBuilder, Vec<u8>) {
    let cap = if how != 0 { how } else { cap_flag as u8 };
    let v: Vec<u8> = (0..len).map(|i| ((i * 7 + i / 5) % 4) as u8).collect();
    let b = match cap {
        2 => v.iter().copied().collect::<QVectorBuilder>(),
        3 => {
            let mut b = QVectorBuilder::new();
            b.extend(v.iter().copied());
            b
        }
        c => {
            let mut b = if c == 1 { QVectorBuilder::with_capacity(len + 7) } else { QVectorBuilder::new() };
            for &x in &v {
                b.push(x);
            }
            b
        }
    };
    (b, v)
}

#[derive(Clone)]
struct QvSt {
    vals: Vec<u8>,
    real: QVectorBuilder,
    poison: bool,
    depth: u8,
    built: u64,
    /// see BvSt::lineage
    lineage: u64,
}
impl std::fmt::Debug for QvSt {
    fn fmt(&self, f: &mut std::fmt::Formatter<'_>) -> std::fmt::Result {
        write!(f, "QvSt(len {}, depth {})", self.vals.len(), self.depth)
    }
}
impl PartialEq for QvSt {
    fn eq(&self, o: &Self) -> bool {
        self.vals == o.vals && self.depth == o.depth && self.built == o.built && self.poison == o.poison && self.lineage == o.lineage
    }
}
impl Eq for QvSt {}
impl Hash for QvSt {
    fn hash<H: Hasher>(&self, h: &mut H) {
        self.vals.hash(h);
        self.depth.hash(h);
        self.built.hash(h);
        self.lineage.hash(h);
        self.poison.hash(h);
    }
}

fn built_digest(b: &QVectorBuilder) -> u64 {
    trap(|| h64(&bincode::serialize(&b.clone().build()).unwrap_or_default())).unwrap_or(u64::MAX)
}

fn observe_qv(ctx: &mut Ctx, b: &QVectorBuilder, vals: &[u8]) {
    let n = vals.len();
    let cl = "";
    let Some(q) = ctx.total("build", cl, 0, n as u64, 0, || b.clone().build()) else { return };
    ctx.obs("len", cl, 0, 0, 0, Exp::Is(n), || q.len());
    ctx.obs("is_empty", cl, 0, 0, 0, Exp::Is(n == 0), || q.is_empty());
    for i in 0..=n + 1 {
        ctx.obs("get", cl, 0, i as u64, 0, Exp::Is(vals.get(i).copied()), || q.get(i));
    }
    ctx.obs("get", cl, 0, u64::MAX, 0, Exp::Is(None), || q.get(usize::MAX));
    for i in mc::sweep::wrap_args(vals.len()) {
        ctx.obs("get", cl, 0, i as u64, 0, Exp::Is(None), || q.get(i));
    }
    ctx.obs_seq("iter", cl, 0, vals, || q.iter().collect::<Vec<u8>>());
    ctx.obs_seq("(&q).into_iter", cl, 0, vals, || (&q).into_iter().collect::<Vec<u8>>());
    ctx.obs_seq("into_iter", cl, 0, vals, || q.clone().into_iter().collect::<Vec<u8>>());
    ctx.obs("== QVector::from_iter(values)", cl, 0, 0, 0, Exp::Is(true), || q == vals.iter().copied().collect::<QVector>());
    ctx.obs("== QVectorBuilder::from_iter(values).build()", cl, 0, 0, 0, Exp::Is(true), || q == vals.iter().copied().collect::<QVectorBuilder>().build());
    ctx.obs("clone == original", cl, 0, 0, 0, Exp::Is(true), || q.clone() == q);
    if n > 0 {
        let mut other = vals.to_vec();
        other[n / 2] ^= 1;
        ctx.obs("!= vector differing in one symbol", cl, 0, 0, 0, Exp::Is(false), || q == other.iter().copied().collect::<QVector>());
    }
}

struct QvModel {
    start_len: usize,
    cap: bool,
    how: u8,
    max_depth: u8,
}

impl Model for QvModel {
    type State = QvSt;
    type Action = QvAct;
    fn init_states(&self) -> Vec<QvSt> {
        let (real, vals) = qv_start(self.start_len, self.cap, self.how);
        let built = built_digest(&real);
        vec![QvSt { vals, real, poison: false, depth: 0, built, lineage: 0 }]
    }
    fn actions(&self, s: &QvSt, out: &mut Vec<QvAct>) {
        if !s.poison && s.depth < self.max_depth {
            qv_actions(out);
            if s.lineage == 0 {
                qv_copy_actions(out);
            }
        }
    }
    fn next_state(&self, s: &QvSt, a: QvAct) -> Option<QvSt> {
        let mut vals = s.vals.clone();
        let mut real = s.real.clone();
        let poison = trap(|| qv_apply(Some(&mut real), &mut vals, a)).is_err();
        if poison {
            // the reference may be half updated: recompute it
            vals = s.vals.clone();
            qv_apply(None, &mut vals, a);
        }
        let built = built_digest(&real);
        let lineage = if let QvAct::Same(k) = a { h64(&(s.lineage, s.depth, k)) } else { s.lineage };
        Some(QvSt { vals, real, poison, depth: s.depth + 1, built, lineage })
    }
    fn properties(&self) -> Vec<Property<Self>> {
        vec![Property::always("the built quad vector holds v mod 4 of every pushed value", |_, s: &QvSt| {
            if s.poison {
                return false;
            }
            let mut g = SCRATCH.lock().unwrap();
            let ctx = g.as_mut().unwrap();
            let before = ctx.total_viols;
            observe_qv(ctx, &s.real, &s.vals);
            ctx.count("states_observed");
            ctx.total_viols == before
        })]
    }
}

fn replay_qv_history(ctx: &mut Ctx, start_len: usize, cap: bool, how: u8, actions: &[QvAct]) {
    let (mut real, mut vals) = qv_start(start_len, cap, how);
    for (j, &a) in actions.iter().enumerate() {
        let mut v2 = vals.clone();
        if ctx.total("mutator", "", j as u128, 0, 0, || qv_apply(Some(&mut real), &mut v2, a)).is_none() {
            return;
        }
        vals = v2;
    }
    observe_qv(ctx, &real, &vals);
}

fn run_qv_model(ctx: &mut Ctx, start_len: usize, cap: bool, how: u8, depth: u8) {
    ctx.set_ty("QVectorBuilder");
    let mut scratch = Ctx::new(&ctx.property, &ctx.profile, &ctx.tier);
    scratch.ty = ctx.ty;
    scratch.case_index = ctx.case_index;
    scratch.case_desc = ctx.case_desc.clone();
    *SCRATCH.lock().unwrap() = Some(scratch);
    let checker = QvModel { start_len, cap, how, max_depth: depth }.checker().threads(1).spawn_bfs().join();
    let unique = checker.unique_state_count() as u64;
    let total = checker.state_count() as u64;
    ctx.add("states", unique);
    ctx.add("transitions", total.saturating_sub(1));
    ctx.add("traces_validated", total.saturating_sub(1));
    ctx.maxi("max_depth", checker.max_depth() as u64);
    ctx.note_input(&(start_len, cap, depth), true);
    let disc = checker.discoveries();
    let mut scratch = SCRATCH.lock().unwrap().take().unwrap();
    ctx.absorb(&mut scratch, |_| false);
    for (_name, path) in disc {
        let actions: Vec<QvAct> = path.into_actions();
        ctx.count("counterexample_paths");
        let saved = ctx.case_desc.clone();
        ctx.case_desc = serde_json::to_value(HCase::QvHist { start_len, cap, actions: actions.clone(), how }).unwrap();
        let before = ctx.total_viols;
        replay_qv_history(ctx, start_len, cap, how, &actions);
        if ctx.total_viols == before {
            ctx.violation("<explorer>", "nondeterministic", format!("{actions:?}"), "counterexample reproduces".into(), "did not reproduce on re-execution".into());
        }
        ctx.case_desc = saved;
    }
}

/// E1 part of C13: collect of every integer type over all short quaternary sequences, offset by
/// multiples of 4 and negated.
fn run_qv_collect(ctx: &mut Ctx, gen: &Gen, ty: u8, offset: i8) {
    ctx.set_ty("QVector");
    let base: Vec<u8> = gen.abstract_seq().iter().map(|&s| (s % 4) as u8).collect();
    ctx.note_input(&(&base, ty, offset), !base.is_empty());
    macro_rules! go {
        ($t:ty) => {{
            let vs: Vec<$t> = base
                .iter()
                .enumerate()
                .map(|(i, &b)| {
                    // value = b + 4*k with k depending on position and `offset` (negative offsets only for signed types)
                    // offsets +-100 stand for a multiple of 4 far out in the value range of the type
                    match offset {
                        100 => (b as $t).wrapping_add((<$t>::MAX / 8) * 4).wrapping_sub(((i % 3) * 4) as $t),
                        -100 => (b as $t).wrapping_add((<$t>::MIN / 8) * 4).wrapping_add(((i % 3) * 4) as $t),
                        o => (b as i128 + 4 * (o as i128) * (1 + (i as i128 % 5))) as $t,
                    }
                })
                .collect();
            let want: Vec<u8> = vs.iter().map(|&x| ((x as i128) & 3) as u8).collect();
            let q = ctx.total("collect", "", ty as u128, 0, 0, || vs.iter().copied().collect::<QVector>());
            if let Some(q) = q {
                let n = want.len();
                ctx.obs("len", "", 0, 0, 0, Exp::Is(n), || q.len());
                ctx.obs("is_empty", "", 0, 0, 0, Exp::Is(n == 0), || q.is_empty());
                for i in 0..=n + 1 {
                    ctx.obs("get", "", 0, i as u64, 0, Exp::Is(want.get(i).copied()), || q.get(i));
                }
                ctx.obs_seq("iter", "", 0, &want, || q.iter().collect::<Vec<u8>>());
                ctx.obs_seq("into_iter", "", 0, &want, || q.clone().into_iter().collect::<Vec<u8>>());
                if n >= 100 {
                    // iteration through the adaptors std derives from next / nth / size_hint
                    for a in [0usize, 1, 127, 128, 129, 255, 256, 257] {
                        for b in [0usize, 1, 3, 127, 128] {
                            if a <= n {
                                ctx.obs("iter: next x a, then nth(b)", "", 0, a as u64, b as u64, Exp::Is(want.get(a + b).copied()), || {
                                    let mut it = q.iter();
                                    for _ in 0..a {
                                        it.next();
                                    }
                                    it.nth(b)
                                });
                            }
                        }
                    }
                    let every3: Vec<u8> = want.iter().copied().step_by(3).collect();
                    ctx.obs_seq("iter().step_by(3)", "", 0, &every3, || q.iter().step_by(3).collect::<Vec<u8>>());
                    let skipped: Vec<u8> = want.iter().copied().skip(130).collect();
                    ctx.obs_seq("into_iter().skip(130)", "", 0, &skipped, || q.clone().into_iter().skip(130).collect::<Vec<u8>>());
                    ctx.obs("iter().count()", "", 0, 0, 0, Exp::Is(n), || q.iter().count());
                }
                let qb = ctx.total("QVectorBuilder::from_iter", "", ty as u128, 0, 0, || vs.iter().copied().collect::<QVectorBuilder>().build());
                if let Some(qb) = qb {
                    ctx.obs("builder collect == vector collect", "", 0, 0, 0, Exp::Is(true), || qb == q);
                }
            }
        }};
    }
    match INT_TYPES[ty as usize] {
        "i8" => go!(i8),
        "i16" => go!(i16),
        "i32" => go!(i32),
        "i64" => go!(i64),
        "i128" => go!(i128),
        "isize" => go!(isize),
        "u8" => go!(u8),
        "u16" => go!(u16),
        "u32" => go!(u32),
        "u64" => go!(u64),
        "u128" => go!(u128),
        _ => go!(usize),
    }
}

// ------------------------------------------------------------------------------------------------
// C12: iterator call histories

#[derive(Debug, Clone, Copy, PartialEq)]
enum Step {
    Next,
    Back,
}

/// Drives a double-ended exact-size iterator through one history, checking every step against a
/// VecDeque. `mk` creates a fresh iterator (iterators are not Clone: every history is re-executed).
fn drive_de<T: Copy + PartialEq + std::fmt::Debug + Hash>(ctx: &mut Ctx, method: &'static str, vals: &[T], hist: &[Step], it: &mut dyn DeIter<T>) {
    let mut dq: VecDeque<T> = vals.iter().copied().collect();
    let mut exhausted = false;
    ctx.obs(method, "len-initial", 0, 0, 0, Exp::Is(dq.len()), || it.len());
    for (j, st) in hist.iter().enumerate() {
        let want = match st {
            Step::Next => dq.pop_front(),
            Step::Back => dq.pop_back(),
        };
        if want.is_none() {
            exhausted = true;
        }
        let cl = if exhausted { "after-exhaustion" } else { "" };
        ctx.add("transitions", 1);
        match st {
            Step::Next => ctx.obs(method, cl, 0, j as u64, 0, Exp::Is(want), || it.next()),
            Step::Back => ctx.obs(method, cl, 1, j as u64, 0, Exp::Is(want), || it.next_back()),
        };
        ctx.obs(method, if exhausted { "len-after-exhaustion" } else { "len" }, 2, j as u64, 0, Exp::Is(dq.len()), || it.len());
        ctx.obs(method, "len-repeat", 2, j as u64, 0, Exp::Is(dq.len()), || it.len());
    }
}

fn all_histories(len: usize) -> Vec<Vec<Step>> {
    (0..(1u32 << len)).map(|m| (0..len).map(|j| if (m >> j) & 1 == 0 { Step::Next } else { Step::Back }).collect()).collect()
}

fn run_iter_tree<X: Tree>(ctx: &mut Ctx, gen: &Gen, vm: &str, extra: usize) {
    let a = gen.abstract_seq();
    let sigma = a.iter().copied().max().map_or(0, |m| m + 1);
    let vals: Vec<X::T> = a.iter().map(|&s| X::T::from_u128(vmap(vm, X::T::BITS, s, sigma))).collect();
    ctx.set_ty(&X::name());
    ctx.note_input(&vals, !vals.is_empty());
    if X::HUFF {
        qwt::verif_hooks::set_tie_script(Some(vec![]));
    }
    let t = ctx.total("new", "", 0, 0, 0, || X::from_vec(vals.clone()));
    qwt::verif_hooks::set_tie_script(None);
    let Some(t) = t else { return };
    let hs = if vals.len() <= 8 { all_histories(vals.len() + extra) } else { vec![] };
    ctx.add("histories", 3 * hs.len() as u64);
    for h in &hs {
        ctx.add("states", h.len() as u64 + 1);
        {
            let mut it = t.iter_();
            drive_de(ctx, "iter()", &vals, h, &mut *it);
        }
        {
            let mut it = t.ref_into_iter_();
            drive_de(ctx, "(&tree).into_iter()", &vals, h, &mut *it);
        }
        {
            let mut it = t.clone().into_iter_();
            drive_de(ctx, "into_iter()", &vals, h, &mut *it);
        }
    }
    if vals.is_empty() {
        // the derived Default is a state no constructor builds: it must iterate as the empty sequence
        let d = X::default();
        for h in &hs {
            let mut it = d.iter_();
            drive_de(ctx, "default().iter()", &vals, h, &mut *it);
            let mut it = d.ref_into_iter_();
            drive_de(ctx, "(&default()).into_iter()", &vals, h, &mut *it);
            let mut it = X::default().into_iter_();
            drive_de(ctx, "default().into_iter()", &vals, h, &mut *it);
        }
    }
    if vals.len() >= 100 {
        for &a in NTH_A.iter().filter(|&&a| a <= vals.len()) {
            for &b in &[0usize, 1, 3, 64, 200] {
                let mut it = t.iter_();
                drive_nth(ctx, "iter()", &vals, a, b, &mut *it);
                let mut it = t.clone().into_iter_();
                drive_nth(ctx, "into_iter()", &vals, a, b, &mut *it);
            }
        }
        // nth_back / rev on the double-ended iterator
        let rev: Vec<X::T> = vals.iter().rev().copied().collect();
        for &a in &[0usize, 1, 64, 129] {
            let mut it = t.iter_().rev();
            drive_nth(ctx, "iter().rev()", &rev, a, 3, &mut it);
        }
    }
    // overridable operations (nth, fold, try_fold, count, last, nth_back, rfold, try_rfold, len ...) after every prefix
    {
        let n = vals.len();
        let names = ["iter()", "(&tree).into_iter()", "into_iter()"];
        let small = n <= 8;
        let ops: Vec<IterOp> = if small { FWD_OPS_SMALL.iter().chain(DE_OPS_SMALL.iter()).copied().collect() } else { fwd_ops_long().into_iter().chain(de_ops_long()).collect() };
        let al = prefix_list(n);
        if small || n >= 100 {
            for which in 0..3u8 {
                if !small && which == 1 {
                    continue;
                }
                for &a in &al {
                    for b in if small { vec![0usize, 1, 2] } else { vec![0usize, 1, 3] } {
                        let f = a.min(n);
                        let bb = b.min(n - f);
                        let rest = &vals[f..n - bb];
                        for &op in &ops {
                            check(ctx, names[which as usize], a, b, op, rest, true, || t.iter_op(which, a, b, rest, op));
                        }
                    }
                }
            }
        }
    }
    // whole-sequence adaptors built on the same calls
    ctx.obs_seq("iter().collect", "", 0, &vals, || t.iter_().collect::<Vec<_>>());
    let rev: Vec<X::T> = vals.iter().rev().copied().collect();
    ctx.obs_seq("iter().rev().collect", "", 0, &rev, || t.iter_().rev().collect::<Vec<_>>());
}

/// forward-only iterators: next() n+extra times, len() where implemented
fn drive_fwd<T: Copy + PartialEq + std::fmt::Debug + Hash>(
    ctx: &mut Ctx,
    method: &'static str,
    vals: &[T],
    extra: usize,
    mut next: impl FnMut() -> Option<T>,
    mut len: impl FnMut() -> Option<usize>,
) {
    let mut dq: VecDeque<T> = vals.iter().copied().collect();
    if let Some(_) = len() {
        ctx.obs(method, "len-initial", 2, 0, 0, Exp::Is(Some(dq.len())), || len());
    }
    for j in 0..vals.len() + extra {
        let want = dq.pop_front();
        let cl = if j >= vals.len() { "after-exhaustion" } else { "" };
        ctx.add("transitions", 1);
        ctx.obs(method, cl, 0, j as u64, 0, Exp::Is(want), || next());
        if len().is_some() {
            ctx.obs(method, if j >= vals.len() { "len-after-exhaustion" } else { "len" }, 2, j as u64, 0, Exp::Is(Some(dq.len())), || len());
        }
    }
    ctx.add("states", (vals.len() + extra + 1) as u64);
    ctx.add("histories", 1);
}

/// next() a times, then nth(b), then next() to exhaustion and beyond; size_hint must bracket the
/// number of remaining elements at every point. Covers iterator methods an implementation may override
/// (nth, size_hint and everything std derives from them: skip, step_by, count, last ...).
fn drive_nth<T: Copy + PartialEq + std::fmt::Debug + Hash>(ctx: &mut Ctx, method: &'static str, vals: &[T], a: usize, b: usize, it: &mut dyn Iterator<Item = T>) {
    let mut pos = 0usize;
    let hint_ok = |it: &dyn Iterator<Item = T>, remaining: usize| -> bool {
        let (lo, hi) = it.size_hint();
        lo <= remaining && hi.map_or(true, |h| h >= remaining)
    };
    ctx.add("transitions", (a + 1) as u64);
    for _ in 0..a {
        ctx.obs(method, "nth-history", 0, pos as u64, 0, Exp::Is(vals.get(pos).copied()), || it.next());
        pos += 1;
    }
    ctx.obs(method, "size_hint", 3, pos as u64, 0, Exp::Is(true), || hint_ok(&*it, vals.len().saturating_sub(pos)));
    ctx.obs(method, "nth", 4, pos as u64, b as u64, Exp::Is(vals.get(pos + b).copied()), || it.nth(b));
    pos = (pos + b + 1).min(vals.len() + 1);
    ctx.obs(method, "size_hint", 3, pos as u64, 0, Exp::Is(true), || hint_ok(&*it, vals.len().saturating_sub(pos)));
    for _ in 0..(vals.len().saturating_sub(pos)).min(300) + 2 {
        ctx.obs(method, "after-nth", 0, pos as u64, 0, Exp::Is(vals.get(pos).copied()), || it.next());
        pos += 1;
        ctx.add("transitions", 1);
    }
    ctx.add("histories", 1);
}

/// Overridable iterator operations (iterops) after every prefix length in `a_list`, on the concrete iterator type.
fn explore_fwd<T: Copy + Ord + std::fmt::Debug, I: Iterator<Item = T>>(
    ctx: &mut Ctx,
    method: &'static str,
    vals: &[T],
    a_list: &[usize],
    ops: &[IterOp],
    len_of: Option<fn(&I) -> usize>,
    mk: impl Fn() -> I,
) {
    let n = vals.len();
    for &a in a_list {
        if a > n + 1 {
            continue;
        }
        let rest = &vals[a.min(n)..];
        for &op in ops {
            check(ctx, method, a, 0, op, rest, len_of.is_some(), || {
                let mut it = mk();
                advance(&mut it, a);
                apply_fwd(it, rest, op, len_of)
            });
        }
    }
    ctx.add("histories", (a_list.len() * ops.len()) as u64);
}

fn prefix_list(n: usize) -> Vec<usize> {
    if n <= 9 {
        (0..=n + 1).collect()
    } else {
        let mut v: Vec<usize> = NTH_A.iter().copied().chain([3, 200, 511, 512, 513, n.saturating_sub(1), n, n + 1]).filter(|&a| a <= n + 1).collect();
        v.sort_unstable();
        v.dedup();
        v
    }
}

const NTH_A: [usize; 11] = [0, 1, 63, 64, 65, 127, 128, 129, 255, 256, 257];
const NTH_B: [usize; 8] = [0, 1, 3, 63, 64, 127, 128, 200];

fn run_iter_bits(ctx: &mut Ctx, gen: &BitGen, extra: usize) {
    let bits = gen.bits();
    let r = RefBits::new(&bits);
    ctx.note_input(&bits, !bits.is_empty());
    let bv: BitVector = bits.iter().copied().collect();
    let bvm: BitVectorMut = bits.iter().copied().collect();
    use std::cell::RefCell;
    ctx.set_ty("BitVectorIter");
    {
        let it = RefCell::new(bv.iter());
        drive_fwd(ctx, "BitVector::iter", &bits, extra, || it.borrow_mut().next(), || Some(it.borrow().len()));
        let it = RefCell::new(bvm.iter());
        drive_fwd(ctx, "BitVectorMut::iter", &bits, extra, || it.borrow_mut().next(), || Some(it.borrow().len()));
        let it = RefCell::new((&bv).into_iter());
        drive_fwd(ctx, "(&BitVector)::into_iter", &bits, extra, || it.borrow_mut().next(), || Some(it.borrow().len()));
    }
    ctx.set_ty("BitVectorIntoIter");
    {
        let it = RefCell::new(bv.clone().into_iter());
        drive_fwd(ctx, "BitVector::into_iter", &bits, extra, || it.borrow_mut().next(), || Some(it.borrow().len()));
        let it = RefCell::new(bvm.clone().into_iter());
        drive_fwd(ctx, "BitVectorMut::into_iter", &bits, extra, || it.borrow_mut().next(), || Some(it.borrow().len()));
    }
    ctx.set_ty("BitVectorBitPositionsIter");
    {
        let it = RefCell::new(bv.ones());
        drive_fwd(ctx, "BitVector::ones", &r.ones, extra, || it.borrow_mut().next(), || None);
        let it = RefCell::new(bv.zeros());
        drive_fwd(ctx, "BitVector::zeros", &r.zeros, extra, || it.borrow_mut().next(), || None);
        let it = RefCell::new(bvm.ones());
        drive_fwd(ctx, "BitVectorMut::ones", &r.ones, extra, || it.borrow_mut().next(), || None);
        let it = RefCell::new(bvm.zeros());
        drive_fwd(ctx, "BitVectorMut::zeros", &r.zeros, extra, || it.borrow_mut().next(), || None);
    }
    if bits.len() >= 60 {
        ctx.set_ty("bit vector iterators (nth histories)");
        for &a in NTH_A.iter().filter(|&&a| a <= bits.len()) {
            for &b in &NTH_B {
                drive_nth(ctx, "BitVector::iter", &bits, a, b, &mut bv.iter());
                drive_nth(ctx, "BitVectorMut::iter", &bits, a, b, &mut bvm.iter());
                drive_nth(ctx, "BitVector::into_iter", &bits, a, b, &mut bv.clone().into_iter());
                if a <= r.ones.len() {
                    drive_nth(ctx, "BitVector::ones", &r.ones, a, b, &mut bv.ones());
                }
                if a <= r.zeros.len() {
                    drive_nth(ctx, "BitVector::zeros", &r.zeros, a, b, &mut bv.zeros());
                }
            }
        }
    }
    {
        let al = prefix_list(bits.len());
        let ops: Vec<IterOp> = if bits.len() <= 9 { FWD_OPS_SMALL.to_vec() } else { fwd_ops_long() };
        ctx.set_ty("BitVectorIter");
        explore_fwd(ctx, "BitVector::iter", &bits, &al, &ops, Some(|i: &qwt::bitvector::BitVectorIter| i.len()), || bv.iter());
        explore_fwd(ctx, "BitVectorMut::iter", &bits, &al, &ops, Some(|i: &qwt::bitvector::BitVectorIter| i.len()), || bvm.iter());
        explore_fwd(ctx, "(&BitVector)::into_iter", &bits, &al, &ops, Some(|i: &qwt::bitvector::BitVectorIter| i.len()), || (&bv).into_iter());
        ctx.set_ty("BitVectorIntoIter");
        explore_fwd(ctx, "BitVector::into_iter", &bits, &al, &ops, Some(|i: &qwt::bitvector::BitVectorIntoIter| i.len()), || bv.clone().into_iter());
        explore_fwd(ctx, "BitVectorMut::into_iter", &bits, &al, &ops, Some(|i: &qwt::bitvector::BitVectorIntoIter| i.len()), || bvm.clone().into_iter());
        ctx.set_ty("BitVectorBitPositionsIter");
        explore_fwd(ctx, "BitVector::ones", &r.ones, &prefix_list(r.ones.len()), &ops, None, || bv.ones());
        explore_fwd(ctx, "BitVector::zeros", &r.zeros, &prefix_list(r.zeros.len()), &ops, None, || bv.zeros());
        explore_fwd(ctx, "BitVectorMut::ones", &r.ones, &prefix_list(r.ones.len()), &ops, None, || bvm.ones());
        explore_fwd(ctx, "BitVectorMut::zeros", &r.zeros, &prefix_list(r.zeros.len()), &ops, None, || bvm.zeros());
    }
    ctx.set_ty("DArray iterators");
    {
        let da: DArray<true> = bits.iter().copied().collect();
        let al = prefix_list(bits.len());
        let ops: Vec<IterOp> = if bits.len() <= 9 { FWD_OPS_SMALL.to_vec() } else { fwd_ops_long() };
        explore_fwd(ctx, "DArray::iter", &bits, &al, &ops, Some(|i: &qwt::bitvector::BitVectorIter| i.len()), || da.iter());
        explore_fwd(ctx, "DArray::ones", &r.ones, &prefix_list(r.ones.len()), &ops, None, || da.ones());
        explore_fwd(ctx, "DArray::zeros", &r.zeros, &prefix_list(r.zeros.len()), &ops, None, || da.zeros());
        let it = RefCell::new(da.iter());
        drive_fwd(ctx, "DArray::iter", &bits, extra, || it.borrow_mut().next(), || Some(it.borrow().len()));
        let it = RefCell::new(da.ones());
        drive_fwd(ctx, "DArray::ones", &r.ones, extra, || it.borrow_mut().next(), || None);
        let it = RefCell::new(da.zeros());
        drive_fwd(ctx, "DArray::zeros", &r.zeros, extra, || it.borrow_mut().next(), || None);
    }
}

fn run_iter_quads(ctx: &mut Ctx, gen: &Gen, extra: usize) {
    let q: Vec<u8> = gen.abstract_seq().iter().map(|&s| (s % 4) as u8).collect();
    ctx.note_input(&q, !q.is_empty());
    use std::cell::RefCell;
    ctx.set_ty("QVectorIterator");
    let qv: QVector = q.iter().copied().collect();
    {
        let it = RefCell::new(qv.iter());
        drive_fwd(ctx, "QVector::iter", &q, extra, || it.borrow_mut().next(), || None);
        let it = RefCell::new((&qv).into_iter());
        drive_fwd(ctx, "(&QVector)::into_iter", &q, extra, || it.borrow_mut().next(), || None);
        let it = RefCell::new(qv.clone().into_iter());
        drive_fwd(ctx, "QVector::into_iter", &q, extra, || it.borrow_mut().next(), || None);
    }
    if q.len() >= 100 {
        for &a in NTH_A.iter().filter(|&&a| a <= q.len()) {
            for &b in &NTH_B {
                drive_nth(ctx, "QVector::iter", &q, a, b, &mut qv.iter());
                drive_nth(ctx, "QVector::into_iter", &q, a, b, &mut qv.clone().into_iter());
            }
        }
    }
    let r256: RSQVector256 = q.iter().copied().collect();
    let r512: RSQVector512 = q.iter().copied().collect();
    {
        let al = prefix_list(q.len());
        let ops: Vec<IterOp> = if q.len() <= 9 { FWD_OPS_SMALL.to_vec() } else { fwd_ops_long() };
        explore_fwd(ctx, "QVector::iter", &q, &al, &ops, None, || qv.iter());
        explore_fwd(ctx, "(&QVector)::into_iter", &q, &al, &ops, None, || (&qv).into_iter());
        explore_fwd(ctx, "QVector::into_iter", &q, &al, &ops, None, || qv.clone().into_iter());
        explore_fwd(ctx, "RSQVector256::iter", &q, &al, &ops, None, || r256.iter());
        explore_fwd(ctx, "(&RSQVector512)::into_iter", &q, &al, &ops, None, || (&r512).into_iter());
        explore_fwd(ctx, "RSQVector512::into_iter", &q, &al, &ops, None, || r512.clone().into_iter());
    }
    {
        let it = RefCell::new(r256.iter());
        drive_fwd(ctx, "RSQVector256::iter", &q, extra, || it.borrow_mut().next(), || None);
        let it = RefCell::new((&r512).into_iter());
        drive_fwd(ctx, "(&RSQVector512)::into_iter", &q, extra, || it.borrow_mut().next(), || None);
        let it = RefCell::new(r256.clone().into_iter());
        drive_fwd(ctx, "RSQVector256::into_iter", &q, extra, || it.borrow_mut().next(), || None);
        let it = RefCell::new(r512.clone().into_iter());
        drive_fwd(ctx, "RSQVector512::into_iter", &q, extra, || it.borrow_mut().next(), || None);
    }
}

// ------------------------------------------------------------------------------------------------

#[derive(Debug, Clone, Serialize, Deserialize)]
enum HCase {
    BvModel { start: BvStart, prefix: Vec<BvAct>, depth: u8 },
    BvHist { start: BvStart, actions: Vec<BvAct> },
    BvBits { bits: String },
    QvModel { start_len: usize, cap: bool, depth: u8, #[serde(default)] how: u8 },
    QvHist { start_len: usize, cap: bool, actions: Vec<QvAct>, #[serde(default)] how: u8 },
    QvCollect { gen: Gen, ty: u8, offset: i8 },
    IterTree { alias: String, elem: String, gen: Gen, vmap: String, extra: usize },
    IterBits { gen: BitGen, extra: usize },
    IterQuads { gen: Gen, extra: usize },
}

impl Case for HCase {
    fn run(&self, ctx: &mut Ctx) {
        match self {
            HCase::BvModel { start, prefix, depth } => run_bv_model(ctx, *start, prefix, *depth),
            HCase::BvHist { start, actions } => {
                ctx.set_ty("BitVectorMut");
                replay_bv_history(ctx, *start, actions, true)
            }
            HCase::BvBits { bits } => {
                ctx.set_ty("BitVectorMut");
                let v: Vec<bool> = bits.chars().map(|c| c == '1').collect();
                let b: BitVectorMut = v.iter().copied().collect();
                let r = RefBits::new(&v);
                observe_bvm(ctx, &b, &r, true);
                observe_conversions(ctx, &b, &r, true);
            }
            HCase::QvModel { start_len, cap, depth, how } => run_qv_model(ctx, *start_len, *cap, *how, *depth),
            HCase::QvHist { start_len, cap, actions, how } => {
                ctx.set_ty("QVectorBuilder");
                replay_qv_history(ctx, *start_len, *cap, *how, actions)
            }
            HCase::QvCollect { gen, ty, offset } => run_qv_collect(ctx, gen, *ty, *offset),
            HCase::IterTree { alias, elem, gen, vmap, extra } => with_tree!(alias.as_str(), elem.as_str(), run_iter_tree(ctx, gen, vmap, *extra)),
            HCase::IterBits { gen, extra } => run_iter_bits(ctx, gen, *extra),
            HCase::IterQuads { gen, extra } => run_iter_quads(ctx, gen, *extra),
        }
    }
    fn weight(&self) -> u64 {
        match self {
            HCase::BvModel { depth, .. } => 60u64.pow(*depth as u32) * 40,
            HCase::QvModel { depth, .. } => 56u64.pow(*depth as u32) * 20,
            _ => 1000,
        }
    }
}

fn enumerate(args: &Args) -> Vec<HCase> {
    let th = args.tier == "thorough";
    let mut v = Vec::new();
    match args.property.as_str() {
        "C08" => {
            let lens = [0usize, 1, 62, 63, 64, 65, 510, 511, 512, 513];
            let d_empty = if th { 5 } else { 4 };
            let d_other = if th { 3 } else { 2 };
            // the deep exploration from the empty vector is split by its first action
            v.push(HCase::BvModel { start: BvStart::Empty, prefix: vec![], depth: 1 });
            let mut first = Vec::new();
            bv_actions(0, &mut first);
            bv_copy_actions(&mut first);
            for a in first {
                v.push(HCase::BvModel { start: BvStart::Empty, prefix: vec![a], depth: d_empty - 1 });
            }
            v.push(HCase::BvModel { start: BvStart::WithCapacity(100), prefix: vec![], depth: d_other });
            for &n in &lens {
                v.push(HCase::BvModel { start: BvStart::Zeros(n), prefix: vec![], depth: d_other });
                if n > 0 {
                    v.push(HCase::BvModel { start: BvStart::Ones(n), prefix: vec![], depth: d_other });
                    v.push(HCase::BvModel { start: BvStart::Alt(n), prefix: vec![], depth: d_other });
                }
            }
            if th {
                for n in [1022usize, 1023, 1024, 1025] {
                    v.push(HCase::BvModel { start: BvStart::Alt(n), prefix: vec![], depth: 2 });
                }
            }
        }
        "C13" => {
            // around the word (128) and line (256) boundaries, and around their halves and multiples
            let lens = [0usize, 1, 31, 32, 33, 63, 64, 65, 95, 96, 97, 126, 127, 128, 129, 191, 192, 193, 254, 255, 256, 257, 383, 384, 385, 511, 512, 513];
            for &n in &lens {
                let d = if n == 0 { if th { 6 } else { 5 } } else if th { 5 } else { 4 };
                v.push(HCase::QvModel { start_len: n, cap: false, depth: d, how: 0 });
            }
            v.push(HCase::QvModel { start_len: 0, cap: true, depth: 3, how: 0 });
            v.push(HCase::QvModel { start_len: 255, cap: true, depth: 3, how: 0 });
            // builders obtained by collect (FromIterator) and by one extend, around the word / line boundaries
            for how in [2u8, 3] {
                for n in [0usize, 1, 127, 128, 129, 255, 256, 257, 512] {
                    v.push(HCase::QvModel { start_len: n, cap: false, depth: if th { 4 } else { 3 }, how });
                }
            }
            for g in tiny_all(4, if th { 7 } else { 6 }) {
                for ty in 0..12u8 {
                    for offset in [0i8, 1, 7, 100, -1, -3, -100] {
                        if offset < 0 && ty >= 6 {
                            continue;
                        }
                        v.push(HCase::QvCollect { gen: g.clone(), ty, offset });
                    }
                }
            }
            // iteration (borrowing and consuming) incl. the overridable iterator operations after every prefix
            for g in tiny_all(4, if th { 5 } else { 4 }) {
                v.push(HCase::IterQuads { gen: g, extra: 4 });
            }
            for n in [127usize, 128, 129, 255, 256, 257, 511, 512, 513, 700, 1025] {
                v.push(HCase::IterQuads { gen: Gen::Boundary { n, pat: Pat::Periodic, sigma: 4 }, extra: 4 });
                v.push(HCase::IterQuads { gen: Gen::Boundary { n, pat: Pat::Runs(37), sigma: 4 }, extra: 4 });
            }
            for n in [127usize, 128, 129, 255, 256, 257, 513, 1025] {
                for ty in 0..12u8 {
                    v.push(HCase::QvCollect { gen: Gen::Boundary { n, pat: Pat::Periodic, sigma: 4 }, ty, offset: if ty < 6 { -5 } else { 9 } });
                }
            }
        }
        "C12" => {
            let aliases = ["QWT256", "QWT512", "QWT256Pfs", "QWT512Pfs", "HQWT256", "HQWT512", "HQWT256Pfs", "HQWT512Pfs", "WT", "HWT"];
            for g in tiny_all(3, if th { 7 } else { 6 }) {
                for (j, al) in aliases.iter().enumerate() {
                    let huff = al.starts_with('H');
                    // element type rotates with alias and case
                    let e = ELEMS[(j + v.len()) % ELEMS.len()];
                    v.push(HCase::IterTree { alias: al.to_string(), elem: e.into(), gen: g.clone(), vmap: if huff { "hpow4".into() } else { "pow4".into() }, extra: if th { 3 } else { 2 } });
                }
            }
            // longer sequences: next / nth / size_hint histories around the 64 / 128 / 256 boundaries
            for (j, al) in aliases.iter().enumerate() {
                let huff = al.starts_with('H');
                for n in [130usize, 300] {
                    v.push(HCase::IterTree { alias: al.to_string(), elem: ELEMS[j % 4].into(), gen: Gen::Boundary { n, pat: Pat::Periodic, sigma: 7 }, vmap: if huff { "hid".into() } else { "id".into() }, extra: 0 });
                }
                v.push(HCase::IterTree { alias: al.to_string(), elem: ELEMS[(j + 1) % 4].into(), gen: Gen::Boundary { n: 600, pat: Pat::Runs(37), sigma: 5 }, vmap: if huff { "hid".into() } else { "id".into() }, extra: 0 });
            }
            for g in tinybits_all(if th { 9 } else { 7 }) {
                v.push(HCase::IterBits { gen: g, extra: 4 });
            }
            for n in [63usize, 64, 65, 511, 512, 513, 1025] {
                // Runs(37) / OnePer(7): no period that divides a word or a line, so a wrapped position shows
                for pat in [BitPat::Alt, BitPat::Ones, BitPat::Zeros, BitPat::Runs(64), BitPat::Runs(37), BitPat::OnePer(7)] {
                    v.push(HCase::IterBits { gen: BitGen::Pat { n, pat }, extra: 4 });
                }
            }
            for g in tiny_all(4, if th { 5 } else { 4 }) {
                v.push(HCase::IterQuads { gen: g, extra: 4 });
            }
            for n in [127usize, 128, 129, 255, 256, 257, 513, 700] {
                v.push(HCase::IterQuads { gen: Gen::Boundary { n, pat: Pat::Periodic, sigma: 4 }, extra: 4 });
                v.push(HCase::IterQuads { gen: Gen::Boundary { n, pat: Pat::Runs(37), sigma: 4 }, extra: 4 });
            }
        }
        p => panic!("mc_hist does not serve {p}"),
    }
    v
}

fn main() {
    main_with::<HCase>(enumerate);
}
