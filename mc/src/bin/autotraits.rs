//! C18, type level: every public structure (and every iterator that borrows one) is Send + Sync.
//! This binary only has to compile; /verif/check builds it on its own and reports a compile error that
//! mentions Send/Sync as a violation of C18.
use qwt::bitvector::{BitVectorBitPositionsIter, BitVectorIntoIter, BitVectorIter};
use qwt::*;

fn send_sync<T: Send + Sync>() {}

macro_rules! trees {
    ($($t:ty),*) => {$(
        send_sync::<QWT256<$t>>();
        send_sync::<QWT512<$t>>();
        send_sync::<QWT256Pfs<$t>>();
        send_sync::<QWT512Pfs<$t>>();
        send_sync::<HQWT256<$t>>();
        send_sync::<HQWT512<$t>>();
        send_sync::<HQWT256Pfs<$t>>();
        send_sync::<HQWT512Pfs<$t>>();
        send_sync::<WT<$t>>();
        send_sync::<HWT<$t>>();
        send_sync::<WTIterator<$t, QWT256<$t>, &'static QWT256<$t>>>();
        send_sync::<WTIterator<$t, HQWT512Pfs<$t>, HQWT512Pfs<$t>>>();
        send_sync::<WTIterator<$t, WT<$t>, &'static WT<$t>>>();
        send_sync::<WTIterator<$t, HWT<$t>, HWT<$t>>>();
    )*};
}

fn main() {
    send_sync::<BitVector>();
    send_sync::<BitVectorMut>();
    send_sync::<QVector>();
    send_sync::<QVectorBuilder>();
    send_sync::<RSQVector256>();
    send_sync::<RSQVector512>();
    send_sync::<RSNarrow>();
    send_sync::<RSWide>();
    send_sync::<DArray<false>>();
    send_sync::<DArray<true>>();
    send_sync::<BitVectorIter<'static>>();
    send_sync::<BitVectorIntoIter>();
    send_sync::<BitVectorBitPositionsIter<'static, true>>();
    send_sync::<BitVectorBitPositionsIter<'static, false>>();
    send_sync::<qwt::qvector::QVectorIterator<&'static QVector>>();
    send_sync::<qwt::qvector::QVectorIterator<QVector>>();
    send_sync::<qwt::quadwt::huffqwt::PrefixCode>();
    trees!(u8, u16, u32, u64, usize, u128);
    println!("autotraits: all public types are Send + Sync");
}
