//! Differential explorers (E1): C09 prefetching never changes an answer, C10 unchecked == checked,
//! C11 serialization round trip, C19 construction paths / copies / element widths.
use mc::bvobs::*;
use mc::gens::*;
use mc::refm::{RefBits, RefSeq};
use mc::run::*;
use mc::sweep::*;
use mc::trees::*;
use mc::vecs::*;
use mc::with_tree;
use qwt::{AccessBin, AccessQuad, BitVector, BitVectorMut, DArray, QVector, RSNarrow, RSQVector256, RSQVector512, RSWide, SelectBin};
use serde::{de::DeserializeOwned, Deserialize, Serialize};

fn base8() -> u32 {
    8
}

#[derive(Debug, Clone, Serialize, Deserialize)]
enum Subject {
    Tree { alias: String, elem: String, gen: Gen, vmap: String },
    Quad { ty: String, gen: Gen },
    Bin { ty: String, gen: BitGen },
    DArr { sel0: bool, gen: BitGen },
    Bits { mutable: bool, gen: BitGen },
    /// all ordered pairs of the sequences of TINY(k, l): distinct inputs must compare different
    Pairs { alias: String, elem: String, k: u32, l: u32, vmap: String },
    /// the same numbers in every element type wide enough
    Widths { alias: String, gen: Gen, vmap: String, #[serde(default = "base8")] base: u32 },
}

impl Case for Subject {
    fn run(&self, ctx: &mut Ctx) {
        let prop = ctx.property.clone();
        match self {
            Subject::Tree { alias, elem, gen, vmap } => with_tree!(alias.as_str(), elem.as_str(), run_tree(ctx, &prop, gen, vmap)),
            Subject::Quad { ty, gen } => match ty.as_str() {
                "RSQVector256" => run_quad::<RSQVector256>(ctx, &prop, gen),
                "RSQVector512" => run_quad::<RSQVector512>(ctx, &prop, gen),
                _ => run_qvector(ctx, &prop, gen),
            },
            Subject::Bin { ty, gen } => match ty.as_str() {
                "RSNarrow" => run_bin::<RSNarrow>(ctx, &prop, gen),
                _ => run_bin::<RSWide>(ctx, &prop, gen),
            },
            Subject::DArr { sel0, gen } => {
                if *sel0 {
                    run_darr::<true>(ctx, &prop, gen)
                } else {
                    run_darr::<false>(ctx, &prop, gen)
                }
            }
            Subject::Bits { mutable, gen } => run_bits(ctx, &prop, *mutable, gen),
            Subject::Pairs { alias, elem, k, l, vmap } => with_tree!(alias.as_str(), elem.as_str(), run_pairs(ctx, *k, *l, vmap)),
            Subject::Widths { alias, gen, vmap, base } => run_widths(ctx, alias, gen, vmap, *base),
        }
    }
    fn weight(&self) -> u64 {
        match self {
            Subject::Tree { gen, .. } | Subject::Quad { gen, .. } | Subject::Widths { gen, .. } => gen.approx_len() * 128 + 1000,
            Subject::Bin { gen, .. } | Subject::DArr { gen, .. } | Subject::Bits { gen, .. } => gen.approx_len() * 16,
            Subject::Pairs { .. } => 1_000_000,
        }
    }
}

fn tree_values<T: Elem>(gen: &Gen, vm: &str) -> Vec<T> {
    let a = gen.abstract_seq();
    let sigma = a.iter().copied().max().map_or(0, |m| m + 1);
    a.iter().map(|&s| T::from_u128(vmap(vm, T::BITS, s, sigma))).collect()
}

fn huff_class<T: Elem>(r: &RefSeq<T>, quad: bool) -> String {
    use minimum_redundancy::{BitsPerFragment, Coding};
    if r.occ.is_empty() {
        return String::new();
    }
    let freqs: std::collections::BTreeMap<u128, usize> = r.occ.iter().map(|(k, v)| (k.to_u128(), v.len())).collect();
    let lens = Coding::from_frequencies(BitsPerFragment(if quad { 2 } else { 1 }), freqs).code_lengths();
    let maxbits = lens.values().max().copied().unwrap_or(0) * if quad { 2 } else { 1 };
    if maxbits > 32 {
        "code_bits>32".into()
    } else {
        String::new()
    }
}

fn build_tree<X: Tree>(ctx: &mut Ctx, vals: &[X::T], path: u8, cl: &str) -> Option<X> {
    if X::HUFF {
        qwt::verif_hooks::set_tie_script(Some(vec![]));
    }
    let t = ctx.total("construct", cl, path as u128, vals.len() as u64, 0, || match path {
        0 => X::new_(&mut vals.to_vec()),
        1 => X::from_vec(vals.to_vec()),
        _ => X::collect_(vals.to_vec()),
    });
    qwt::verif_hooks::set_tie_script(None);
    t
}

fn roundtrip<V: Serialize + DeserializeOwned + PartialEq + Clone>(ctx: &mut Ctx, v: &V, cl: &str) -> Option<V> {
    let bytes = ctx.total("bincode::serialize", cl, 0, 0, 0, || bincode::serialize(v))?;
    let bytes = match bytes {
        Ok(b) => b,
        Err(e) => {
            ctx.violation("bincode::serialize", cl, "serialize(value)".into(), "Ok(bytes)".into(), format!("Err({e})"));
            return None;
        }
    };
    let back = ctx.total("bincode::deserialize", cl, 0, bytes.len() as u64, 0, || bincode::deserialize::<V>(&bytes))?;
    let back = match back {
        Ok(b) => b,
        Err(e) => {
            ctx.violation("bincode::deserialize", cl, "deserialize(serialize(value))".into(), "Ok(value)".into(), format!("Err({e})"));
            return None;
        }
    };
    ctx.obs("deserialized == original", cl, 0, 0, 0, Exp::Is(true), || back == *v);
    ctx.obs("original == deserialized", cl, 0, 0, 0, Exp::Is(true), || *v == back);
    ctx.obs("re-serialized bytes identical", cl, 0, 0, 0, Exp::Is(true), || bincode::serialize(&back).map(|b| b == bytes).unwrap_or(false));
    // the other entry points of bincode: a reader (whole buffer, and one that hands out a single byte per read call),
    // a writer, and the size computation
    for short in [false, true] {
        let name: &'static str = if short { "bincode::deserialize_from(one byte per read)" } else { "bincode::deserialize_from(reader)" };
        let r = ctx.total(name, cl, 0, bytes.len() as u64, 0, || {
            if short {
                bincode::deserialize_from::<_, V>(OneByte(&bytes))
            } else {
                bincode::deserialize_from::<_, V>(std::io::Cursor::new(&bytes))
            }
        });
        match r {
            Some(Ok(x)) => {
                ctx.obs("value read from a reader == original", cl, short as u128, 0, 0, Exp::Is(true), || x == *v);
            }
            Some(Err(e)) => ctx.violation(name, cl, "deserialize_from(reader over serialize(value))".into(), "Ok(value)".into(), format!("Err({e})")),
            None => {}
        }
    }
    ctx.obs("serialize_into(writer) writes the same bytes", cl, 0, 0, 0, Exp::Is(true), || {
        let mut buf = Vec::new();
        bincode::serialize_into(&mut buf, v).is_ok() && buf == bytes
    });
    ctx.obs("serialized_size == number of bytes", cl, 0, 0, 0, Exp::Is(Some(bytes.len() as u64)), || bincode::serialized_size(v).ok());
    Some(back)
}

/// a reader that returns at most one byte per call (the short-read answer of the environment)
struct OneByte<'a>(&'a [u8]);
impl<'a> std::io::Read for OneByte<'a> {
    fn read(&mut self, buf: &mut [u8]) -> std::io::Result<usize> {
        if self.0.is_empty() || buf.is_empty() {
            return Ok(0);
        }
        buf[0] = self.0[0];
        self.0 = &self.0[1..];
        Ok(1)
    }
}

/// C19, copies: clone_from into values that held something else must yield a value equal to the source (and, where a
/// sweep is given, one that answers like it).
fn c19_clone_from<V: Clone + PartialEq>(ctx: &mut Ctx, cl: &str, v: &V, donors: Vec<V>, d0: Option<u64>, sweep: &dyn Fn(&mut Ctx, &V)) {
    for (k, mut d) in donors.into_iter().enumerate() {
        if ctx.total("clone_from", cl, k as u128, 0, 0, || d.clone_from(v)).is_none() {
            continue;
        }
        ctx.obs("clone_from(x) == x", cl, k as u128, 0, 0, Exp::Is(true), || d == *v);
        ctx.obs("x == clone_from(x)", cl, k as u128, 0, 0, Exp::Is(true), || *v == d);
        if let Some(d0) = d0 {
            let dd = ctx.digest_of(|c| sweep(c, &d));
            if dd != d0 {
                let before = ctx.total_viols;
                sweep(ctx, &d);
                if ctx.total_viols == before {
                    ctx.violation("clone_from", cl, format!("donor {k}: full sweep"), "identical answers".into(), "answers differ".into());
                }
            }
        }
    }
}

/// positions p such that bits[p] != bits[p+1], in the layout classes that matter (first word, middle, last word)
fn swap_sites(bits: &[bool]) -> Vec<usize> {
    let n = bits.len();
    let mut out = Vec::new();
    if n < 2 {
        return out;
    }
    let last_word = (n - 1) / 64 * 64;
    for range in [0..n.min(64) - 1, (n / 2).saturating_sub(32)..(n / 2 + 32).min(n - 1), last_word.min(n - 2)..n - 1, n.saturating_sub(66).min(n - 2)..n - 1] {
        if let Some(p) = range.clone().find(|&p| bits[p] != bits[p + 1]) {
            out.push(p);
        }
        if let Some(p) = range.rev().find(|&p| bits[p] != bits[p + 1]) {
            out.push(p);
        }
    }
    out.sort_unstable();
    out.dedup();
    out
}

// ------------------------------------------------------------------------------------------------
// trees

fn run_tree<X: Tree>(ctx: &mut Ctx, prop: &str, gen: &Gen, vm: &str) {
    let vals: Vec<X::T> = tree_values(gen, vm);
    let r = RefSeq::new(&vals);
    ctx.set_ty(&X::name());
    ctx.note_input(&vals, !vals.is_empty());
    note_seq_shape(ctx, &r, X::QUAD);
    let cl = if X::HUFF { huff_class(&r, X::QUAD) } else { String::new() };
    let Some(t) = build_tree::<X>(ctx, &vals, 0, &cl) else { return };
    let n = vals.len();
    let o = SweepOpts { dense_limit: if n <= 600 { 8193 } else { 300 }, sym_cap: 10, class: cl.clone(), ..Default::default() };
    match prop {
        "C09" => {
            if !X::QUAD {
                return;
            }
            // (a) rank_prefetch(c, i) == rank(c, i) for every symbol of the alphabet and EVERY position,
            // on the tree as built and on a deserialized copy of it (a state reached through serde)
            let syms = symbols(&r, 12);
            let all: Vec<usize> = if n <= 70_000 { (0..=n + 2).collect() } else { positions(n, 0) };
            let mut pos = all;
            pos.extend([UMAX - 1, UMAX]);
            pos.extend(mc::sweep::wrap_args(n));
            let back = ctx.total("deserialize(serialize(..))", &cl, 0, 0, 0, || bincode::deserialize::<X>(&bincode::serialize(&t).unwrap()).unwrap());
            for (which, tt) in [Some(&t), back.as_ref()].into_iter().enumerate() {
                let Some(tt) = tt else { continue };
                let cls = if which == 0 { cl.clone() } else { sub_class(&cl, "deserialized") };
                // the deserialized copy: every symbol, a thinner set of positions on long inputs
                let step = if which == 1 && n > 3000 { 7 } else { 1 };
                for &c in &syms {
                    for &i in pos.iter().step_by(step).chain(pos.iter().rev().take(12)) {
                        let base = trap(|| tt.rank_(c, i));
                        if let Ok(b) = base {
                            ctx.obs("rank_prefetch", &cls, c.to_u128(), i as u64, 0, Exp::Is(b), || tt.rank_prefetch_(c, i).unwrap());
                        }
                        if n > 0 && i <= n && b_is_some(&base) {
                            let b = base.unwrap().unwrap();
                            ctx.obs("rank_prefetch_unchecked", &cls, c.to_u128(), i as u64, 0, Exp::Is(b), || unsafe { tt.rank_prefetch_unchecked_(c, i).unwrap() });
                        }
                    }
                }
            }
            // (b) digest of every answer, compared between the builds with / without the prefetch feature
            if ctx.want_digest {
                let d = ctx.digest_of(|c| sweep_tree(c, &t, &r, &o));
                ctx.mix_digest(d);
            }
        }
        "C10" => {
            c10_tree(ctx, &t, &r, &o);
            // the same on copies: a deserialized one, and clone_from into trees that held a smaller / a larger alphabet
            let mut o2 = o.clone();
            o2.class = sub_class(&cl, "copy");
            if let Some(d) = ctx.total("deserialize(serialize(..))", &o2.class, 0, 0, 0, || derived(&t, 2, X::default)) {
                c10_tree(ctx, &d, &r, &o2);
            }
            let tmax: u128 = if X::T::BITS == 128 { u128::MAX } else { (1u128 << X::T::BITS) - 1 };
            let cap = if X::HUFF { tmax.min(65535) } else { tmax };
            let maxv = vals.iter().map(|x| x.to_u128()).max().unwrap_or(0);
            let larger: Vec<X::T> = vals.iter().copied().chain(std::iter::repeat(X::T::from_u128((maxv.saturating_mul(4).saturating_add(7)).min(cap))).take(300)).collect();
            let smaller: Vec<X::T> = vec![vals.iter().copied().min().unwrap_or(X::T::from_u128(0)); (n / 2).max(1)];
            for (k, dv) in [smaller, larger].into_iter().enumerate() {
                let Some(mut d) = build_tree::<X>(ctx, &dv, 1, &o2.class) else { continue };
                if ctx.total("clone_from", &o2.class, k as u128, 0, 0, || d.clone_from(&t)).is_some() {
                    c10_tree(ctx, &d, &r, &o2);
                }
            }
        }
        "C11" => {
            if n == 0 {
                // the derived Default: a value no constructor builds
                let _ = roundtrip(ctx, &X::default(), "default");
            }
            let Some(back) = roundtrip(ctx, &t, &cl) else { return };
            let d1 = ctx.digest_of(|c| sweep_tree(c, &t, &r, &o));
            let d2 = ctx.digest_of(|c| sweep_tree(c, &back, &r, &o));
            if d1 != d2 {
                let before = ctx.total_viols;
                sweep_tree(ctx, &back, &r, &o);
                if ctx.total_viols == before {
                    ctx.violation("queries after round trip", &cl, "full sweep".into(), "answers identical to the original's".into(), "answers differ (both differ from the reference)".into());
                }
            }
            // the original has answered queries by now: its round trip must still compare equal (and the earlier copy, queried too, equals it)
            let _ = roundtrip(ctx, &t, &sub_class(&cl, "after-queries"));
            ctx.obs("deserialized (queried) == original (queried)", &sub_class(&cl, "after-queries"), 0, 0, 0, Exp::Is(true), || back == t);
            ctx.count("round_trips");
        }
        "C19" => {
            // construction paths: new / From<Vec> / collect answer identically; clone equals
            let d0 = ctx.digest_of(|c| sweep_tree(c, &t, &r, &o));
            for path in 1..3u8 {
                let Some(t2) = build_tree::<X>(ctx, &vals, path, &cl) else { continue };
                let d = ctx.digest_of(|c| sweep_tree(c, &t2, &r, &o));
                if d != d0 {
                    let before = ctx.total_viols;
                    sweep_tree(ctx, &t2, &r, &o);
                    if ctx.total_viols == before {
                        ctx.violation("construction path", &cl, format!("path {path} vs new()"), "identical answers".into(), "answers differ".into());
                    }
                }
                if !X::HUFF {
                    ctx.obs("path == new()", &cl, path as u128, 0, 0, Exp::Is(true), || t2 == t);
                }
                ctx.obs("clone == original", &cl, path as u128, 0, 0, Exp::Is(true), || t2.clone() == t2);
            }
            ctx.obs("clone == original", &cl, 0, 0, 0, Exp::Is(true), || t.clone() == t);
            // clone_from into values that held something else: Default, a longer sequence with a larger maximum, a
            // shorter one with a smaller maximum
            {
                let tmax: u128 = if X::T::BITS == 128 { u128::MAX } else { (1u128 << X::T::BITS) - 1 };
                let maxv = vals.iter().map(|x| x.to_u128()).max().unwrap_or(0);
                let cap = if X::HUFF { tmax.min(65535) } else { tmax };
                let longer: Vec<X::T> = vals.iter().copied().chain(std::iter::repeat(X::T::from_u128((maxv.saturating_mul(4).saturating_add(7)).min(cap))).take(300)).collect();
                let shorter: Vec<X::T> = vec![vals.iter().copied().min().unwrap_or(X::T::from_u128(0)); (n / 2).max(1)];
                for (k, dv) in [None, Some(longer), Some(shorter)].into_iter().enumerate() {
                    let donor = match dv {
                        None => Some(X::default()),
                        Some(v) => build_tree::<X>(ctx, &v, 1, &cl),
                    };
                    let Some(mut d) = donor else { continue };
                    if ctx.total("clone_from", &cl, k as u128, 0, 0, || d.clone_from(&t)).is_none() {
                        continue;
                    }
                    ctx.obs("clone_from(x) == x", &cl, k as u128, 0, 0, Exp::Is(true), || d == t);
                    let dd = ctx.digest_of(|c| sweep_tree(c, &d, &r, &o));
                    if dd != d0 {
                        let before = ctx.total_viols;
                        sweep_tree(ctx, &d, &r, &o);
                        if ctx.total_viols == before {
                            ctx.violation("clone_from", &cl, format!("donor {k}: full sweep"), "identical answers".into(), "answers differ".into());
                        }
                    }
                }
            }
            if !X::HUFF {
                // `t` has answered queries by now: a value that has not must still compare equal to it
                if let Some(fresh) = build_tree::<X>(ctx, &vals, 1, &cl) {
                    ctx.obs("never queried value == queried value", &cl, 0, 0, 0, Exp::Is(true), || fresh == t);
                    ctx.obs("clone of queried value == never queried value", &cl, 0, 0, 0, Exp::Is(true), || t.clone() == fresh);
                }
            }
            // neighbours: one changed symbol / one transposition at positions of every layout class
            if n >= 2 && n <= 1200 && !X::HUFF {
                let mut ps: Vec<usize> = vec![0, 1, n / 2, n - 2, n - 1, 127, 128, 129, 255, 256, 257, 383, 384, 511, 512];
                let last_line = (n - 1) / 256 * 256;
                ps.extend([last_line, last_line + 1, last_line + 127, last_line + 128, last_line + 129, last_line + 200]);
                ps.retain(|&p| p < n);
                ps.sort_unstable();
                ps.dedup();
                for &p in &ps {
                    let mut v2 = vals.clone();
                    // a different symbol of the alphabet at p (cycle through the occurring symbols)
                    let syms = r.symbols();
                    let k = syms.iter().position(|s| *s == v2[p]).unwrap();
                    v2[p] = syms[(k + 1) % syms.len()];
                    if v2 != vals {
                        if let Some(t2) = build_tree::<X>(ctx, &v2, 1, &cl) {
                            ctx.obs("tree(S) == tree(S with one symbol changed)", &cl, 0, p as u64, 0, Exp::Is(false), || t2 == t);
                        }
                    }
                    if p + 1 < n && vals[p] != vals[p + 1] {
                        let mut v3 = vals.clone();
                        v3.swap(p, p + 1);
                        if let Some(t3) = build_tree::<X>(ctx, &v3, 1, &cl) {
                            ctx.obs("tree(S) == tree(S with two neighbours swapped)", &cl, 1, p as u64, 0, Exp::Is(false), || t3 == t);
                        }
                    }
                }
            }
            let tc = t.clone();
            let dc = ctx.digest_of(|c| sweep_tree(c, &tc, &r, &o));
            if dc != d0 {
                ctx.violation("clone", &cl, "full sweep of the clone".into(), "identical answers".into(), "answers differ".into());
            }
        }
        p => panic!("run_tree: {p}"),
    }
}

fn b_is_some(b: &Result<Option<usize>, String>) -> bool {
    matches!(b, Ok(Some(_)))
}

/// C10, one pair: the arguments satisfy the documented precondition (by the reference model). The unchecked method
/// must return what the checked one returns; a checked method that answers None there while the unchecked one
/// returns a value is a disagreement too.
fn c10_pair<R: PartialEq + std::fmt::Debug + std::hash::Hash>(
    ctx: &mut Ctx,
    name: &'static str,
    cl: &str,
    a0: u128,
    a1: u64,
    a2: u64,
    checked: impl FnOnce() -> Option<R>,
    unchecked: impl FnOnce() -> R,
) {
    match trap(checked) {
        Ok(Some(v)) => {
            ctx.obs(name, cl, a0, a1, a2, Exp::Is(v), unchecked);
        }
        Ok(None) => {
            ctx.count("checked_gave_no_value_on_valid_arguments");
            if let Ok(u) = trap(unchecked) {
                ctx.violation(
                    name,
                    &sub_class(cl, "checked-none"),
                    format!("{name}({})", fmt_args(name, a0, a1, a2)),
                    "the value of the checked method - which answers None although the precondition holds".into(),
                    format!("{u:?}"),
                );
            }
        }
        Err(msg) => {
            // the checked method panics although the precondition holds; if the unchecked one answers, they disagree
            ctx.count("checked_gave_no_value_on_valid_arguments");
            if let Ok(u) = trap(unchecked) {
                ctx.violation(
                    name,
                    &sub_class(cl, "checked-panic"),
                    format!("{name}({})", fmt_args(name, a0, a1, a2)),
                    "the value of the checked method - which panics although the precondition holds".into(),
                    format!("{u:?} (checked: PANIC: {msg})"),
                );
            }
        }
    }
}

/// C10 for trees: on arguments that satisfy the documented precondition the unchecked method returns
/// what the checked one returns.
fn c10_tree<X: Tree>(ctx: &mut Ctx, t: &X, r: &RefSeq<X::T>, o: &SweepOpts) {
    let n = r.len();
    let cl = o.class.as_str();
    for &i in &positions(n, o.dense_limit) {
        if i < n {
            c10_pair(ctx, "get_unchecked", cl, 0, i as u64, 0, || t.get_(i), || unsafe { t.get_unchecked_(i) });
        }
    }
    let max = r.max();
    for &c in &symbols(r, o.sym_cap) {
        let valid_sym = if X::HUFF { r.count(c) > 0 } else { max.map_or(false, |m| c <= m) };
        if !valid_sym || n == 0 {
            continue;
        }
        let cu = c.to_u128();
        for &i in &positions(n, o.dense_limit) {
            if i > n {
                continue;
            }
            c10_pair(ctx, "rank_unchecked", cl, cu, i as u64, 0, || t.rank_(c, i), || unsafe { t.rank_unchecked_(c, i) });
            if X::QUAD {
                c10_pair(ctx, "rank_prefetch_unchecked", cl, cu, i as u64, 0, || t.rank_prefetch_(c, i).unwrap(), || unsafe { t.rank_prefetch_unchecked_(c, i).unwrap() });
            }
        }
        for &k in &occ_indices(r.count(c), o.dense_limit) {
            if k < r.count(c) {
                c10_pair(ctx, "select_unchecked", cl, cu, k as u64, 0, || t.select_(c, k), || unsafe { t.select_unchecked_(c, k) });
            }
        }
    }
}

fn run_pairs<X: Tree>(ctx: &mut Ctx, k: u32, l: u32, vm: &str) {
    ctx.set_ty(&X::name());
    let gens = tiny_all(k, l);
    let mut trees: Vec<(Vec<X::T>, X)> = Vec::new();
    for g in &gens {
        let vals: Vec<X::T> = tree_values(g, vm);
        if let Some(t) = build_tree::<X>(ctx, &vals, (trees.len() % 3) as u8, "") {
            trees.push((vals, t));
        }
    }
    ctx.note_input(&(k, l, vm), true);
    for (i, (va, a)) in trees.iter().enumerate() {
        for (j, (vb, b)) in trees.iter().enumerate() {
            let same = va == vb;
            if i != j || same {
                ctx.obs("tree(S) == tree(S')", if same { "same-sequence" } else { "different-sequences" }, i as u128, j as u64, 0, Exp::Is(same), || a == b);
            }
        }
    }
    ctx.add("pairs_compared", (trees.len() * trees.len()) as u64);
}

/// canonical (width independent) digest of a tree's answers on width independent queries
fn canon_answers<X: Tree>(ctx: &mut Ctx, vals128: &[u128]) -> Option<u64> {
    let vals: Vec<X::T> = vals128.iter().map(|&v| X::T::from_u128(v)).collect();
    let t = build_tree::<X>(ctx, &vals, 1, "")?;
    let n = vals.len();
    let mut syms: Vec<u128> = vals128.to_vec();
    let m = vals128.iter().copied().max().unwrap_or(0);
    let tmax: u128 = if X::T::BITS == 128 { u128::MAX } else { (1u128 << X::T::BITS) - 1 };
    for x in [0, 1, m / 2, m.saturating_sub(1), m.saturating_add(1), m.saturating_add(2)] {
        if x <= tmax.min(255) || x <= m {
            syms.push(x);
        }
    }
    syms.sort_unstable();
    syms.dedup();
    syms.retain(|&x| x <= tmax);
    let mut h: u64 = 0;
    let mut mix = |tag: u8, a: u128, b: usize, ans: Option<u128>| {
        h = h.rotate_left(7) ^ h64(&(tag, a, b, ans));
    };
    mix(0, 0, 0, Some(t.len_() as u128));
    for i in 0..=n + 1 {
        mix(1, 0, i, trap(|| t.get_(i)).ok().flatten().map(|x| x.to_u128()));
    }
    for &c in &syms {
        let ct = X::T::from_u128(c);
        for i in 0..=n + 1 {
            mix(2, c, i, trap(|| t.rank_(ct, i)).ok().flatten().map(|x| x as u128));
        }
        for k in 0..=n + 1 {
            mix(3, c, k, trap(|| t.select_(ct, k)).ok().flatten().map(|x| x as u128));
        }
    }
    ctx.evals += ((2 * syms.len() + 1) * (n + 2)) as u64;
    Some(h)
}

fn run_widths(ctx: &mut Ctx, alias: &str, gen: &Gen, vm: &str, base: u32) {
    // values defined for the narrowest type that holds them; every wider type must answer identically.
    // Queries: only symbols that exist in every compared type (<= max(S)+2, limited to the narrowest width)
    let a = gen.abstract_seq();
    let sigma = a.iter().copied().max().map_or(0, |m| m + 1);
    let vals: Vec<u128> = a.iter().map(|&s| vmap(vm, base, s, sigma)).collect();
    ctx.set_ty(alias);
    ctx.note_input(&(alias, &vals), !vals.is_empty());
    let mut digests: Vec<(&str, u64)> = Vec::new();
    for e in ELEMS {
        if elem_bits(e) < base {
            continue;
        }
        fn go<X: Tree>(ctx: &mut Ctx, v: &[u128]) -> Option<u64> {
            canon_answers::<X>(ctx, v)
        }
        let d = with_tree!(alias, e, go(ctx, &vals));
        if let Some(d) = d {
            digests.push((e, d));
        }
    }
    for w in digests.windows(2) {
        if w[0].1 != w[1].1 {
            ctx.violation("same numbers in a wider type", "", format!("{alias}<{}> vs {alias}<{}> over {:?}", w[0].0, w[1].0, &vals[..vals.len().min(12)]), "identical answers".into(), "answers differ".into());
        }
    }
}

// ------------------------------------------------------------------------------------------------
// quad vectors

fn run_quad<X: QuadRS>(ctx: &mut Ctx, prop: &str, gen: &Gen) {
    let q: Vec<u8> = gen.abstract_seq().iter().map(|&s| (s % 4) as u8).collect();
    let r = RefSeq::new(&q);
    ctx.set_ty(X::NAME);
    ctx.note_input(&q, !q.is_empty());
    let Some(t) = ctx.total("construct", "", 0, q.len() as u64, 0, || X::new_u8(&q)) else { return };
    let dense = if q.len() <= 600 { 8193 } else { 300 };
    match prop {
        "C10" => {
            let n = q.len();
            for &i in &positions(n, dense) {
                if i < n {
                    c10_pair(ctx, "get_unchecked", "", 0, i as u64, 0, || t.get(i), || unsafe { t.get_unchecked(i) });
                }
            }
            for s in 0..4u8 {
                for &i in &positions(n, dense) {
                    if i <= n {
                        c10_pair(ctx, "rank_unchecked", "", s as u128, i as u64, 0, || t.rank(s, i), || unsafe { t.rank_unchecked(s, i) });
                    }
                }
                for &k in &occ_indices(r.count(s), dense) {
                    if k < r.count(s) {
                        c10_pair(ctx, "select_unchecked", "", s as u128, k as u64, 0, || t.select(s, k), || unsafe { t.select_unchecked(s, k) });
                    }
                }
                c10_pair(ctx, "occs_unchecked", "", s as u128, 0, 0, || t.occs(s), || unsafe { t.occs_unchecked(s) });
                c10_pair(ctx, "occs_smaller_unchecked", "", s as u128, 0, 0, || t.occs_smaller(s), || unsafe { t.occs_smaller_unchecked(s) });
            }
        }
        "C11" => {
            if q.is_empty() {
                let _ = roundtrip(ctx, &X::default(), "default");
            }
            let Some(back) = roundtrip(ctx, &t, "") else { return };
            let d1 = ctx.digest_of(|c| sweep_quadrs(c, &t, &r, dense, false, ""));
            let d2 = ctx.digest_of(|c| sweep_quadrs(c, &back, &r, dense, false, ""));
            if d1 != d2 {
                let before = ctx.total_viols;
                sweep_quadrs(ctx, &back, &r, dense, false, "");
                if ctx.total_viols == before {
                    ctx.violation("queries after round trip", "", "full sweep".into(), "identical answers".into(), "answers differ".into());
                }
            }
            // the original has answered queries by now: its round trip must still compare equal (and the earlier copy, queried too, equals it)
            let _ = roundtrip(ctx, &t, "after-queries");
            ctx.obs("deserialized (queried) == original (queried)", "after-queries", 0, 0, 0, Exp::Is(true), || back == t);
            ctx.count("round_trips");
        }
        "C19" => {
            let d0 = ctx.digest_of(|c| sweep_quadrs(c, &t, &r, dense, false, ""));
            let others: Vec<(&'static str, Option<X>)> = vec![
                ("From<QVector>", ctx.total("construct", "", 1, 0, 0, || X::from(q.iter().copied().collect::<QVector>()))),
                ("collect", ctx.total("construct", "", 2, 0, 0, || X::collect_u64(&q))),
            ];
            for (name, t2) in others {
                let Some(t2) = t2 else { continue };
                let d = ctx.digest_of(|c| sweep_quadrs(c, &t2, &r, dense, false, ""));
                if d != d0 {
                    ctx.violation("construction path", "", format!("{name} vs new()"), "identical answers".into(), "answers differ".into());
                }
                ctx.obs("path == new()", "", 0, 0, 0, Exp::Is(true), || t2 == t);
            }
            ctx.obs("clone == original", "", 0, 0, 0, Exp::Is(true), || t.clone() == t);
            {
                let n = q.len();
                let donors = vec![X::default(), X::new_u8(&vec![3u8; n + 700]), X::new_u8(&vec![1u8; (n / 2).max(1)])];
                c19_clone_from(ctx, "", &t, donors, Some(d0), &|c, x| sweep_quadrs(c, x, &r, dense, false, ""));
            }
            ctx.obs("never queried value == queried value", "", 0, 0, 0, Exp::Is(true), || X::new_u8(&q) == t);
            if !q.is_empty() && q.len() <= 9000 {
                let n = q.len();
                let last_line = (n - 1) / 256 * 256;
                let mut ps: Vec<usize> = vec![0, 1, n / 2, n.saturating_sub(2), n - 1, 127, 128, 129, 255, 256, 257, 511, 512, 2047, 2048, last_line, last_line + 1, last_line + 127, last_line + 128, last_line + 129, last_line + 200];
                ps.retain(|&p| p < n);
                ps.sort_unstable();
                ps.dedup();
                for &p in &ps {
                    for d in [1u8, 2, 3] {
                        let mut q2 = q.clone();
                        q2[p] = (q2[p] + d) % 4;
                        ctx.obs("!= vector differing in one symbol", "", d as u128, p as u64, 0, Exp::Is(false), || X::new_u8(&q2) == t);
                        ctx.obs("QVector != QVector differing in one symbol", "", d as u128, p as u64, 0, Exp::Is(false), || q2.iter().copied().collect::<QVector>() == q.iter().copied().collect::<QVector>());
                    }
                    if p + 1 < n && q[p] != q[p + 1] {
                        let mut q3 = q.clone();
                        q3.swap(p, p + 1);
                        ctx.obs("!= vector with two neighbours swapped", "", 0, p as u64, 0, Exp::Is(false), || X::new_u8(&q3) == t);
                        ctx.obs("QVector != QVector with two neighbours swapped", "", 0, p as u64, 0, Exp::Is(false), || q3.iter().copied().collect::<QVector>() == q.iter().copied().collect::<QVector>());
                    }
                }
            }
            let mut q3 = q.clone();
            q3.push(0);
            ctx.obs("!= vector with one more symbol", "", 0, 0, 0, Exp::Is(false), || X::new_u8(&q3) == t);
        }
        p => panic!("run_quad: {p}"),
    }
}

fn run_qvector(ctx: &mut Ctx, prop: &str, gen: &Gen) {
    let q: Vec<u8> = gen.abstract_seq().iter().map(|&s| (s % 4) as u8).collect();
    ctx.set_ty("QVector");
    ctx.note_input(&q, !q.is_empty());
    let Some(t) = ctx.total("construct", "", 0, q.len() as u64, 0, || q.iter().copied().collect::<QVector>()) else { return };
    match prop {
        "C10" => {
            for i in 0..q.len() {
                c10_pair(ctx, "get_unchecked", "", 0, i as u64, 0, || t.get(i), || unsafe { t.get_unchecked(i) });
            }
        }
        "C11" => {
            let Some(back) = roundtrip(ctx, &t, "") else { return };
            ctx.obs_seq("iter after round trip", "", 0, &q, || back.iter().collect::<Vec<u8>>());
            for i in 0..=q.len() + 1 {
                ctx.obs("get after round trip", "", 0, i as u64, 0, Exp::Is(q.get(i).copied()), || back.get(i));
            }
            // the original has answered queries by now: its round trip must still compare equal (and the earlier copy, queried too, equals it)
            let _ = roundtrip(ctx, &t, "after-queries");
            ctx.obs("deserialized (queried) == original (queried)", "after-queries", 0, 0, 0, Exp::Is(true), || back == t);
            ctx.count("round_trips");
        }
        _ => {}
    }
}

// ------------------------------------------------------------------------------------------------
// binary rank/select

fn run_bin<X: BinRS>(ctx: &mut Ctx, prop: &str, gen: &BitGen) {
    let bits = gen.bits();
    let r = RefBits::new(&bits);
    ctx.set_ty(X::NAME);
    ctx.note_input(&bits, !bits.is_empty());
    let Some(t) = ctx.total("construct", "", 0, bits.len() as u64, 0, || {
        // C10: the bit vector under the structure comes from every route the API offers (chosen by the content): bools,
        // sorted positions, repeated unsorted positions
        let route = if prop == "C10" && bits.last() == Some(&true) { h64(&bits) % 3 } else { 0 };
        let bv: BitVector = match route {
            1 => r.ones.iter().copied().collect(),
            2 => {
                let mut messy: Vec<usize> = r.ones.iter().rev().copied().collect();
                messy.extend(r.ones.iter().copied().step_by(2));
                messy.into_iter().collect()
            }
            _ => bits.iter().copied().collect(),
        };
        X::new_(bv)
    }) else {
        return;
    };
    let n = bits.len();
    let dense = if n <= 600 { 8193 } else { 300 };
    match prop {
        "C10" => {
            for &i in &positions(n, dense) {
                if i < n {
                    c10_pair(ctx, "get_unchecked", "", 0, i as u64, 0, || t.get(i), || unsafe { t.get_unchecked(i) });
                }
                if i <= n && n > 0 {
                    c10_pair(ctx, "rank1_unchecked", "", 0, i as u64, 0, || t.rank1(i), || unsafe { t.rank1_unchecked(i) });
                    c10_pair(ctx, "rank0_unchecked", "", 0, i as u64, 0, || t.rank0(i), || unsafe { t.rank0_unchecked(i) });
                }
            }
            for &k in &occ_indices(r.ones.len(), dense) {
                if k < r.ones.len() {
                    c10_pair(ctx, "select1_unchecked", "", 0, k as u64, 0, || t.select1(k), || unsafe { t.select1_unchecked(k) });
                }
            }
            for &k in &occ_indices(r.zeros.len(), dense) {
                if k < r.zeros.len() {
                    c10_pair(ctx, "select0_unchecked", "", 0, k as u64, 0, || t.select0(k), || unsafe { t.select0_unchecked(k) });
                }
            }
        }
        "C11" => {
            if bits.is_empty() {
                let _ = roundtrip(ctx, &X::default(), "default");
            }
            let Some(back) = roundtrip(ctx, &t, "") else { return };
            let d1 = ctx.digest_of(|c| sweep_binrs(c, &t, &r, dense, false, ""));
            let d2 = ctx.digest_of(|c| sweep_binrs(c, &back, &r, dense, false, ""));
            if d1 != d2 {
                let before = ctx.total_viols;
                sweep_binrs(ctx, &back, &r, dense, false, "");
                if ctx.total_viols == before {
                    ctx.violation("queries after round trip", "", "full sweep".into(), "identical answers".into(), "answers differ".into());
                }
            }
            // the original has answered queries by now: its round trip must still compare equal (and the earlier copy, queried too, equals it)
            let _ = roundtrip(ctx, &t, "after-queries");
            ctx.obs("deserialized (queried) == original (queried)", "after-queries", 0, 0, 0, Exp::Is(true), || back == t);
            ctx.count("round_trips");
        }
        "C19" => {
            let d0 = ctx.digest_of(|c| sweep_binrs(c, &t, &r, dense, false, ""));
            if let Some(t2) = ctx.total("construct", "", 1, 0, 0, || X::from(bits.iter().copied().collect::<BitVector>())) {
                let d = ctx.digest_of(|c| sweep_binrs(c, &t2, &r, dense, false, ""));
                if d != d0 {
                    ctx.violation("construction path", "", "From<BitVector> vs new()".into(), "identical answers".into(), "answers differ".into());
                }
                ctx.obs("path == new()", "", 0, 0, 0, Exp::Is(true), || t2 == t);
            }
            if bits.last() == Some(&true) {
                if let Some(t3) = ctx.total("construct", "", 2, 0, 0, || X::new_(r.ones.iter().copied().collect::<BitVector>())) {
                    ctx.obs("built from positions == built from bools", "", 0, 0, 0, Exp::Is(true), || t3 == t);
                }
                let mut messy: Vec<usize> = r.ones.iter().rev().copied().collect();
                messy.extend(r.ones.iter().copied().step_by(2));
                if let Some(t4) = ctx.total("construct", "", 3, 0, 0, || X::new_(messy.iter().copied().collect::<BitVector>())) {
                    ctx.obs("built from repeated / unsorted positions == built from bools", "", 0, 0, 0, Exp::Is(true), || t4 == t);
                    let d = ctx.digest_of(|c| sweep_binrs(c, &t4, &r, dense, false, ""));
                    if d != d0 {
                        ctx.violation("construction path", "", "bit vector collected from repeated / unsorted positions vs from bools".into(), "identical answers".into(), "answers differ".into());
                    }
                }
            }
            ctx.obs("clone == original", "", 0, 0, 0, Exp::Is(true), || t.clone() == t);
            {
                let nb = bits.len();
                let donors = vec![X::default(), X::new_((0..nb + 1400).map(|i| i % 3 != 0).collect::<BitVector>()), X::new_((0..(nb / 2).max(1)).map(|_| false).collect::<BitVector>())];
                c19_clone_from(ctx, "", &t, donors, Some(d0), &|c, x| sweep_binrs(c, x, &r, dense, false, ""));
                for p in swap_sites(&bits) {
                    let mut b2 = bits.clone();
                    b2.swap(p, p + 1);
                    ctx.obs("!= vector with two neighbouring bits swapped", "", p as u128, 0, 0, Exp::Is(false), || X::new_(b2.iter().copied().collect::<BitVector>()) == t);
                }
            }
            ctx.obs("never queried value == queried value", "", 0, 0, 0, Exp::Is(true), || X::new_(bits.iter().copied().collect::<BitVector>()) == t);
            ctx.obs("clone of queried value == never queried value", "", 0, 0, 0, Exp::Is(true), || t.clone() == X::new_(bits.iter().copied().collect::<BitVector>()));
            if !bits.is_empty() {
                let nb = bits.len();
                let mut ps = vec![0, nb / 2, nb - 1, 63, 64, 511, 512, 4095, 4096];
                ps.retain(|&p| p < nb);
                ps.dedup();
                for j in ps {
                    let mut b2 = bits.clone();
                    b2[j] = !b2[j];
                    ctx.obs("!= vector differing in one bit", "", j as u128, 0, 0, Exp::Is(false), || X::new_(b2.iter().copied().collect::<BitVector>()) == t);
                }
            }
        }
        p => panic!("run_bin: {p}"),
    }
}

fn run_darr<const S0: bool>(ctx: &mut Ctx, prop: &str, gen: &BitGen) {
    let bits = gen.bits();
    let r = RefBits::new(&bits);
    ctx.set_ty(if S0 { "DArray<true>" } else { "DArray<false>" });
    ctx.note_input(&bits, !bits.is_empty());
    let Some(t) = ctx.total("construct", "", 0, bits.len() as u64, 0, || DArray::<S0>::new(bits.iter().copied().collect::<BitVector>())) else { return };
    let n = bits.len();
    let dense = 8193;
    let starts = with_pos_starts(n, &[]);
    match prop {
        "C10" => {
            for &i in &positions(n, 300) {
                if i < n {
                    c10_pair(ctx, "get_unchecked", "", 0, i as u64, 0, || t.get(i), || unsafe { t.get_unchecked(i) });
                }
            }
            for k in 0..r.ones.len() {
                c10_pair(ctx, "select1_unchecked", "", 0, k as u64, 0, || t.select1(k), || unsafe { t.select1_unchecked(k) });
            }
            if S0 {
                for k in 0..r.zeros.len() {
                    c10_pair(ctx, "select0_unchecked", "", 0, k as u64, 0, || t.select0(k), || unsafe { t.select0_unchecked(k) });
                }
            }
        }
        "C11" => {
            if bits.is_empty() {
                let _ = roundtrip(ctx, &DArray::<S0>::default(), "default");
            }
            let Some(back) = roundtrip(ctx, &t, "") else { return };
            let d1 = ctx.digest_of(|c| quiet(|| sweep_darray(c, &t, &r, dense, false, "", &starts)));
            let d2 = ctx.digest_of(|c| quiet(|| sweep_darray(c, &back, &r, dense, false, "", &starts)));
            if d1 != d2 {
                let before = ctx.total_viols;
                quiet(|| sweep_darray(ctx, &back, &r, dense, false, "", &starts));
                if ctx.total_viols == before {
                    ctx.violation("queries after round trip", "", "full sweep".into(), "identical answers".into(), "answers differ".into());
                }
            }
            // the original has answered queries by now: its round trip must still compare equal (and the earlier copy, queried too, equals it)
            let _ = roundtrip(ctx, &t, "after-queries");
            ctx.obs("deserialized (queried) == original (queried)", "after-queries", 0, 0, 0, Exp::Is(true), || back == t);
            ctx.count("round_trips");
        }
        "C19" => {
            let d0 = ctx.digest_of(|c| quiet(|| sweep_darray(c, &t, &r, dense, false, "", &starts)));
            if let Some(t2) = ctx.total("construct", "", 1, 0, 0, || bits.iter().copied().collect::<DArray<S0>>()) {
                let d = ctx.digest_of(|c| quiet(|| sweep_darray(c, &t2, &r, dense, false, "", &starts)));
                if d != d0 {
                    ctx.violation("construction path", "", "collect(bools) vs new()".into(), "identical answers".into(), "answers differ".into());
                }
                ctx.obs("path == new()", "", 1, 0, 0, Exp::Is(true), || t2 == t);
            }
            if bits.last() == Some(&true) || bits.is_empty() {
                if let Some(t3) = ctx.total("construct", "", 2, 0, 0, || r.ones.iter().copied().collect::<DArray<S0>>()) {
                    ctx.obs("built from positions == built from bools", "", 2, 0, 0, Exp::Is(true), || t3 == t);
                }
            }
            ctx.obs("clone == original", "", 0, 0, 0, Exp::Is(true), || t.clone() == t);
            {
                let nb = bits.len();
                let donors = vec![DArray::<S0>::default(), (0..nb + 70_000).map(|i| i % 3 != 0 || i > nb).collect::<DArray<S0>>(), (0..(nb / 2).max(1)).map(|i| i % 2000 == 0).collect::<DArray<S0>>()];
                c19_clone_from(ctx, "", &t, donors, Some(d0), &|c, x| quiet(|| sweep_darray(c, x, &r, dense, false, "", &starts)));
                for p in swap_sites(&bits) {
                    let mut b2 = bits.clone();
                    b2.swap(p, p + 1);
                    ctx.obs("!= vector with two neighbouring bits swapped", "", p as u128, 0, 0, Exp::Is(false), || b2.iter().copied().collect::<DArray<S0>>() == t);
                }
            }
            ctx.obs("never queried value == queried value", "", 0, 0, 0, Exp::Is(true), || DArray::<S0>::new(bits.iter().copied().collect::<BitVector>()) == t);
            if !bits.is_empty() {
                let mut b2 = bits.clone();
                let j = b2.len() / 2;
                b2[j] = !b2[j];
                ctx.obs("!= vector differing in one bit", "", j as u128, 0, 0, Exp::Is(false), || DArray::<S0>::new(b2.iter().copied().collect::<BitVector>()) == t);
            }
        }
        p => panic!("run_darr: {p}"),
    }
}

fn run_bits(ctx: &mut Ctx, prop: &str, mutable: bool, gen: &BitGen) {
    let bits = gen.bits();
    let r = RefBits::new(&bits);
    ctx.note_input(&bits, !bits.is_empty());
    let n = bits.len();
    macro_rules! c10 {
        ($b:expr, $mutable:expr) => {{
            let b = $b;
            for i in 0..n {
                c10_pair(ctx, "get_unchecked", "", 0, i as u64, 0, || b.get(i), || unsafe { b.get_unchecked(i) });
            }
            let starts: Vec<usize> = if n <= 140 { (0..=n).collect() } else { positions(n, 0).into_iter().filter(|&s| s <= n).collect() };
            for &s in &starts {
                for len in 1..=64usize {
                    if s + len <= n {
                        // precondition of get_bits_unchecked: the range is inside the vector
                        let cl = if $mutable && s + len == n { "index+len==n_bits" } else { "" };
                        match trap(|| b.get_bits(s, len)) {
                            Ok(chk) => {
                                let u = trap(|| unsafe { b.get_bits_unchecked(s, len) });
                                ctx.evals += 1;
                                match u {
                                    Ok(u) => {
                                        if chk != Some(u) {
                                            ctx.violation("get_bits_unchecked", cl, format!("get_bits_unchecked({s}, {len})"), format!("{u} (what the unchecked method returns)"), format!("{chk:?}"));
                                        }
                                    }
                                    Err(m) => ctx.violation("get_bits_unchecked", cl, format!("get_bits_unchecked({s}, {len})"), format!("{chk:?}"), format!("PANIC: {m}")),
                                }
                            }
                            Err(msg) => {
                                // the checked method panics although the range is inside the vector
                                ctx.count("checked_gave_no_value_on_valid_arguments");
                                if let Ok(u) = trap(|| unsafe { b.get_bits_unchecked(s, len) }) {
                                    ctx.violation("get_bits_unchecked", &sub_class(cl, "checked-panic"), format!("get_bits_unchecked({s}, {len})"), "the value of the checked method - which panics although the precondition holds".into(), format!("{u} (checked: PANIC: {msg})"));
                                }
                            }
                        }
                    }
                }
            }
        }};
    }
    if mutable {
        ctx.set_ty("BitVectorMut");
        let Some(b) = ctx.total("construct", "", 0, n as u64, 0, || bits.iter().copied().collect::<BitVectorMut>()) else { return };
        match prop {
            "C10" => c10!(&b, true),
            "C11" => {
                let Some(back) = roundtrip(ctx, &b, "") else { return };
                let d1 = ctx.digest_of(|c| observe_bvm(c, &b, &r, false));
                let d2 = ctx.digest_of(|c| observe_bvm(c, &back, &r, false));
                if d1 != d2 {
                    ctx.violation("queries after round trip", "", "complete observation".into(), "answers identical to the original's".into(), "answers differ".into());
                }
                // the original has answered queries by now: its round trip must still compare equal (and the earlier copy, queried too, equals it)
                let _ = roundtrip(ctx, &b, "after-queries");
                ctx.obs("deserialized (queried) == original (queried)", "after-queries", 0, 0, 0, Exp::Is(true), || back == b);
                ctx.count("round_trips");
            }
            "C19" => {
                if bits.last() == Some(&true) || bits.is_empty() {
                    ctx.obs("collect(positions) == collect(bools)", "", 0, 0, 0, Exp::Is(true), || r.ones.iter().copied().collect::<BitVectorMut>() == b);
                }
                ctx.obs("clone == original", "", 0, 0, 0, Exp::Is(true), || b.clone() == b);
                {
                    let mut big = BitVectorMut::with_capacity(5000);
                    for _ in 0..2000 {
                        big.push(true);
                    }
                    c19_clone_from(ctx, "", &b, vec![BitVectorMut::default(), big, BitVectorMut::with_zeros(3)], None, &|_, _| {});
                    for p in swap_sites(&bits) {
                        let mut b2 = bits.clone();
                        b2.swap(p, p + 1);
                        ctx.obs("!= vector with two neighbouring bits swapped", "", p as u128, 0, 0, Exp::Is(false), || b2.iter().copied().collect::<BitVectorMut>() == b);
                    }
                }
                if bits.last() == Some(&true) {
                    // a position list may repeat positions and need not be sorted
                    let mut messy: Vec<usize> = r.ones.iter().rev().copied().collect();
                    messy.extend(r.ones.iter().copied().step_by(2));
                    messy.push(*r.ones.last().unwrap());
                    ctx.obs("collect(positions, repeated and unsorted) == collect(bools)", "", 0, 0, 0, Exp::Is(true), || messy.iter().copied().collect::<BitVectorMut>() == b);
                    ctx.obs("count_ones of collect(positions, repeated and unsorted)", "", 0, 0, 0, Exp::Is(r.ones.len()), || messy.iter().copied().collect::<BitVectorMut>().count_ones());
                    ctx.obs("extend(positions already set) keeps the vector equal", "", 0, 0, 0, Exp::Is(true), || {
                        let mut c = b.clone();
                        c.extend(r.ones.iter().copied().take(5));
                        c == b
                    });
                }
                let mut pushed = BitVectorMut::new();
                for &x in &bits {
                    pushed.push(x);
                }
                ctx.obs("pushed == collected", "", 0, 0, 0, Exp::Is(true), || pushed == b);
                ctx.obs("From<BitVector>(From<BitVectorMut>) == original", "", 0, 0, 0, Exp::Is(true), || BitVectorMut::from(BitVector::from(b.clone())) == b);
            }
            _ => {}
        }
    } else {
        ctx.set_ty("BitVector");
        let Some(b) = ctx.total("construct", "", 0, n as u64, 0, || bits.iter().copied().collect::<BitVector>()) else { return };
        match prop {
            "C10" => c10!(&b, false),
            "C11" => {
                let Some(back) = roundtrip(ctx, &b, "") else { return };
                let d1 = ctx.digest_of(|c| observe_bv(c, &b, &r, false));
                let d2 = ctx.digest_of(|c| observe_bv(c, &back, &r, false));
                if d1 != d2 {
                    ctx.violation("queries after round trip", "", "complete observation".into(), "answers identical to the original's".into(), "answers differ".into());
                }
                // the original has answered queries by now: its round trip must still compare equal (and the earlier copy, queried too, equals it)
                let _ = roundtrip(ctx, &b, "after-queries");
                ctx.obs("deserialized (queried) == original (queried)", "after-queries", 0, 0, 0, Exp::Is(true), || back == b);
                ctx.count("round_trips");
            }
            "C19" => {
                if bits.last() == Some(&true) || bits.is_empty() {
                    ctx.obs("collect(positions) == collect(bools)", "", 0, 0, 0, Exp::Is(true), || r.ones.iter().copied().collect::<BitVector>() == b);
                    ctx.obs("collect(u32 positions) == collect(bools)", "", 0, 0, 0, Exp::Is(true), || r.ones.iter().map(|&p| p as u32).collect::<BitVector>() == b);
                    ctx.obs("collect(i64 positions) == collect(bools)", "", 0, 0, 0, Exp::Is(true), || r.ones.iter().map(|&p| p as i64).collect::<BitVector>() == b);
                }
                if bits.last() == Some(&true) {
                    let mut messy: Vec<usize> = r.ones.iter().rev().copied().collect();
                    messy.extend(r.ones.iter().copied().step_by(3));
                    ctx.obs("collect(positions, repeated and unsorted) == collect(bools)", "", 0, 0, 0, Exp::Is(true), || messy.iter().copied().collect::<BitVector>() == b);
                    ctx.obs("count_ones of collect(positions, repeated and unsorted)", "", 0, 0, 0, Exp::Is(r.ones.len()), || messy.iter().copied().collect::<BitVector>().count_ones());
                }
                ctx.obs("clone == original", "", 0, 0, 0, Exp::Is(true), || b.clone() == b);
                {
                    let donors = vec![BitVector::default(), (0..2000).map(|_| true).collect::<BitVector>(), (0..3).map(|_| false).collect::<BitVector>()];
                    c19_clone_from(ctx, "", &b, donors, None, &|_, _| {});
                    for p in swap_sites(&bits) {
                        let mut b2 = bits.clone();
                        b2.swap(p, p + 1);
                        ctx.obs("!= vector with two neighbouring bits swapped", "", p as u128, 0, 0, Exp::Is(false), || b2.iter().copied().collect::<BitVector>() == b);
                    }
                }
                if n > 0 {
                    let mut b2 = bits.clone();
                    b2[n / 2] = !b2[n / 2];
                    ctx.obs("!= vector differing in one bit", "", 0, 0, 0, Exp::Is(false), || b2.iter().copied().collect::<BitVector>() == b);
                }
            }
            _ => {}
        }
    }
}

// ------------------------------------------------------------------------------------------------

fn tree_subjects(v: &mut Vec<Subject>, prop: &str, th: bool) {
    let all: Vec<&str> = PLAIN_QUAD.iter().chain(HUFF_QUAD.iter()).copied().chain(["WT", "HWT"]).collect();
    let aliases: Vec<&str> = if prop == "C09" { PLAIN_QUAD.iter().chain(HUFF_QUAD.iter()).copied().collect() } else { all };
    let elems: &[&str] = if prop == "C09" { &["u8", "u64"] } else { &["u8", "u16", "u32", "u64", "usize", "u128"] };
    let mut push = |alias: &str, elem: &str, gen: Gen, vm: &str| v.push(Subject::Tree { alias: alias.into(), elem: elem.into(), gen, vmap: vm.into() });
    if prop == "C09" {
        // every short sequence, element types up to 128 bits (symbols of 2^64 and more in the queries)
        for g in tiny_all(3, if th { 5 } else { 4 }) {
            for &al in &aliases {
                let huff = al.starts_with('H');
                for e in ["u8", "u64", "u128"] {
                    for vm in if huff { ["hpow4", "hmaxy", "hid"] } else { ["wide", "maxy", "id"] } {
                        push(al, e, g.clone(), vm);
                    }
                }
            }
        }
    }
    if prop != "C09" {
        for g in tiny_all(3, if th { 6 } else { 5 }) {
            for &al in &aliases {
                let huff = al.starts_with('H');
                for &e in elems {
                    for vm in if huff { ["hpow4", "hbig", "hmaxy"] } else { ["pow4", "wide", "maxy"] } {
                        push(al, e, g.clone(), vm);
                    }
                }
            }
        }
        for a in 1..=(if th { 6 } else { 5 }) {
            for ms in multisets(&[1, 2, 3, 9, 20], a) {
                for &al in &aliases {
                    if al.starts_with('H') {
                        push(al, "u16", Gen::Huff { freqs: ms.clone(), arr: 2 }, "hgap");
                    }
                }
            }
        }
    }
    // longer inputs: several 2048-symbol periods, 3+ levels, skewed level distributions
    let lens: Vec<usize> = if prop == "C09" {
        if th { vec![2047, 2048, 2049, 4096, 4097, 6145, 8193, 20481, 65537] } else { vec![2047, 2048, 2049, 4096, 4097, 6145, 8193, 20481] }
    } else if th {
        vec![255, 256, 257, 2047, 2048, 2049, 4097, 8193, 24577]
    } else {
        vec![255, 256, 257, 2048, 2049, 4097]
    };
    for &n in &lens {
        for &al in &aliases {
            let huff = al.starts_with('H');
            let mut shapes = vec![(64u32, Pat::Periodic), (64, Pat::Runs(128)), (64, Pat::Const(48)), (64, Pat::TwoRuns), (64, Pat::Blocks), (5, Pat::Periodic), (256, Pat::DenseThenSparse), (64, Pat::Rare(2)), (17, Pat::Runs(2048))];
            if prop == "C09" {
                // one- and two-level trees (alphabets of at most 4 / 16 symbols)
                shapes.extend([(4u32, Pat::Periodic), (3, Pat::Runs(128)), (2, Pat::Rare(1)), (16, Pat::Periodic)]);
            }
            for (sigma, pat) in shapes {
                let e = if prop == "C09" && (n + sigma as usize) % 5 == 0 { "u128" } else if sigma <= 64 && (n + sigma as usize) % 2 == 0 { "u8" } else { "u64" };
                let vm = if huff { "hid" } else if e == "u64" { "spread" } else { "id" };
                // Const(48): sigma 64 keeps the symbol (Const is taken modulo sigma)
                push(al, e, Gen::Boundary { n, pat, sigma }, vm);
            }
            if huff {
                // levels of different length that end just below / at / above a multiple of 2048
                for (f0, f1) in [(2047u32, 1u32), (2048, 1), (2049, 2), (4095, 3), (4096, 1), (4097, 5)] {
                    let mut freqs = vec![f0, f1, 1, 1, 1, 2, 3, 700, 900];
                    freqs.truncate(9);
                    push(al, "u16", Gen::Huff { freqs: freqs.clone(), arr: 2 }, "hid");
                    push(al, "u16", Gen::Huff { freqs, arr: 0 }, "hgap");
                }
                push(al, "u16", Gen::Huff { freqs: chain4(6), arr: 2 }, "hid");
                push(al, "u16", Gen::Huff { freqs: chain4x(7, 3), arr: 2 }, "hid");
                push(al, "u16", Gen::Huff { freqs: chain4(9), arr: 0 }, "hid");
                if th && prop == "C11" && (al == "HQWT256" || al == "HQWT512Pfs") {
                    // codewords of exactly 30 and 32 bits
                    push(al, "u16", Gen::Huff { freqs: chain4(15), arr: 0 }, "hid");
                    push(al, "u16", Gen::Huff { freqs: chain4(16), arr: 0 }, "hid");
                }
            }
        }
    }
}

fn quad_subjects(v: &mut Vec<Subject>, prop: &str, th: bool) {
    let tys: &[&str] = if prop == "C19" { &["RSQVector256", "RSQVector512"] } else { &["RSQVector256", "RSQVector512", "QVector"] };
    for g in tiny_all(4, if th { 6 } else { 5 }) {
        for ty in tys {
            v.push(Subject::Quad { ty: ty.to_string(), gen: g.clone() });
        }
    }
    for &n in &[127usize, 128, 129, 255, 256, 257, 511, 512, 513, 1537, 2047, 2048, 2049, 3073, 4095, 4096, 4097, 8191, 8192, 8193, 24577] {
        for (sigma, pat) in [(4u32, Pat::Periodic), (4, Pat::Runs(128)), (4, Pat::Blocks), (4, Pat::Const(3)), (2, Pat::Rare(1)), (3, Pat::TwoRuns)] {
            for ty in tys {
                v.push(Subject::Quad { ty: ty.to_string(), gen: Gen::Boundary { n, pat, sigma } });
            }
        }
    }
}

fn bit_gens(th: bool) -> Vec<BitGen> {
    let mut g = tinybits_all(if th { 11 } else { 9 });
    for &n in &[63usize, 64, 65, 511, 512, 513, 1000, 4095, 4096, 4097, 7700, 8000, 8191, 8192, 8193, 16000, 16383, 32768, 65537] {
        for pat in [BitPat::Zeros, BitPat::Ones, BitPat::Alt, BitPat::Runs(512), BitPat::OnePer(1024), BitPat::ZeroPer(8192), BitPat::HalfOnes, BitPat::SingleOne(1), BitPat::SingleZero(2), BitPat::OnePer(7), BitPat::OnePer(63), BitPat::OnePer(64), BitPat::OnePer(65), BitPat::ZeroPer(64)] {
            g.push(BitGen::Pat { n, pat });
        }
    }
    g
}

fn darr_gens(th: bool) -> Vec<BitGen> {
    let mut g = tinybits_all(if th { 10 } else { 8 });
    for sh in group_shapes(&[Grp::D, Grp::T1, Grp::T2, Grp::S], 2) {
        for partial in [0usize, 1, 33, 1023] {
            for complement in [false, true] {
                let pk = sh[0];
                g.push(BitGen::Groups { groups: sh.clone(), partial, pk, lead: 3, tail: 2, complement });
            }
        }
    }
    for partial in [1usize, 2, 33, 65, 1023] {
        for pk in [Grp::D, Grp::T1, Grp::T2, Grp::S] {
            for complement in [false, true] {
                g.push(BitGen::Groups { groups: vec![], partial, pk, lead: 0, tail: 0, complement });
            }
        }
    }
    for &n in &[4096usize, 8193, 65537] {
        for pat in [BitPat::Ones, BitPat::Alt, BitPat::OnePer(1024), BitPat::ZeroPer(65)] {
            g.push(BitGen::Pat { n, pat });
        }
    }
    // a few ones whose gaps sit on the 16-bit boundary (65534 / 65535 / 65536)
    g.extend(boundary_gap_lists(if th { 3 } else { 2 }).into_iter().filter(|x| matches!(x, BitGen::Pos { tail: 0, .. })));
    g
}

fn enumerate(args: &Args) -> Vec<Subject> {
    let th = args.tier == "thorough";
    let prop = args.property.as_str();
    let mut v = Vec::new();
    tree_subjects(&mut v, prop, th);
    if prop == "C09" {
        return v;
    }
    quad_subjects(&mut v, prop, th);
    for g in bit_gens(th) {
        for ty in ["RSNarrow", "RSWide"] {
            v.push(Subject::Bin { ty: ty.into(), gen: g.clone() });
        }
        for mutable in [false, true] {
            v.push(Subject::Bits { mutable, gen: g.clone() });
        }
    }
    for g in darr_gens(th) {
        for sel0 in [false, true] {
            v.push(Subject::DArr { sel0, gen: g.clone() });
        }
    }
    if prop == "C19" {
        let all: Vec<&str> = PLAIN_QUAD.iter().chain(HUFF_QUAD.iter()).copied().chain(["WT", "HWT"]).collect();
        for &al in &all {
            let huff = al.starts_with('H');
            for e in ["u8", "u64", "u128"] {
                v.push(Subject::Pairs { alias: al.into(), elem: e.into(), k: 3, l: 4, vmap: if huff { "hpow4".into() } else { "pow4".into() } });
                if !huff {
                    // values that are multiples of 4 of each other: trees whose levels are prefixes of each other's
                    v.push(Subject::Pairs { alias: al.into(), elem: e.into(), k: 4, l: 3, vmap: "quad4".into() });
                }
            }
            for g in tiny_all(3, if th { 6 } else { 5 }) {
                v.push(Subject::Widths { alias: al.into(), gen: g.clone(), vmap: if huff { "hholes".into() } else { "holes".into() }, base: 8 });
                if huff {
                    v.push(Subject::Widths { alias: al.into(), gen: g.clone(), vmap: "hmaxy".into(), base: 8 });
                    v.push(Subject::Widths { alias: al.into(), gen: g.clone(), vmap: "hmaxy".into(), base: 16 });
                    v.push(Subject::Widths { alias: al.into(), gen: g, vmap: "hbig".into(), base: 16 });
                } else {
                    // values that need the whole width of u16 / u32 / u64: compared in every wider type
                    v.push(Subject::Widths { alias: al.into(), gen: g.clone(), vmap: "maxy".into(), base: 8 });
                    for base in [16u32, 32, 64] {
                        for vm in ["wide", "top", "maxy"] {
                            v.push(Subject::Widths { alias: al.into(), gen: g.clone(), vmap: vm.into(), base });
                        }
                    }
                }
            }
            for n in [255usize, 257, 2049] {
                v.push(Subject::Widths { alias: al.into(), gen: Gen::Boundary { n, pat: Pat::Periodic, sigma: 200 }, vmap: if huff { "hid".into() } else { "id".into() }, base: 8 });
                if !huff {
                    v.push(Subject::Widths { alias: al.into(), gen: Gen::Boundary { n, pat: Pat::Periodic, sigma: 200 }, vmap: "spread".into(), base: 64 });
                }
            }
        }
    }
    v
}

fn main() {
    main_with::<Subject>(enumerate);
}
