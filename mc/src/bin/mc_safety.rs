//! C04: the safe API is total and memory-safe. State zoo x every safe public method x argument
//! alphabet, each call under the panic trap inside a journalled child process (SIGSEGV / SIGILL /
//! SIGABRT / watchdog are attributed to the call); run in the optimized build, in the build with debug
//! assertions + overflow checks (which also arms std's unsafe-precondition checks) and, in the thorough
//! tier, under AddressSanitizer.
use mc::bvobs::quiet;
use mc::gens::*;
use mc::iterops::*;
use mc::run::*;
use mc::trees::*;
use mc::vecs::*;
use mc::with_tree;
use qwt::{AccessBin, AccessQuad, BitVector, BitVectorMut, DArray, QVector, QVectorBuilder, RSNarrow, RSQVector256, RSQVector512, RSWide, RankBin, SelectBin, SpaceUsage};
use serde::{de::DeserializeOwned, Deserialize, Serialize};

const UMAX: usize = usize::MAX;

/// Every safe public function / trait method the sweep calls, by name. `check` compares this list with
/// the `pub fn`s it greps from /repo/src, so that new API cannot be skipped silently.
const METHODS: &[&str] = &[
    // BitVector / BitVectorMut
    "get_bits", "get_word", "ones", "ones_with_pos", "zeros", "zeros_with_pos", "iter", "is_empty", "len", "count_ones",
    "count_zeros", "n_lines", "prefetch_line", "get", "new", "with_capacity", "with_zeros", "push", "append_bits",
    "extend_with_zeros", "set", "set_bits", "shrink_to_fit", "extend", "from_iter", "from", "into_iter", "next", "fmt", "clone", "eq",
    "space_usage_byte", "space_usage_KiB", "space_usage_MiB", "space_usage_GiB", "default", "as_ref",
    // QVector / builder / RSQVector
    "build", "rank", "select", "occs", "occs_smaller", "prefetch_info", "prefetch_data",
    // bit rank/select
    "n_ones", "n_zeros", "rank1", "rank0", "select1", "select0", "bv_len",
    // trees
    "n_levels", "sigma", "rank_prefetch", "next_back",
    // position iterators
    "with_pos",
    // Iterator / DoubleEndedIterator / ExactSizeIterator methods an implementation may override (iter_totality)
    "nth", "nth_back", "fold", "rfold", "try_fold", "try_rfold", "count", "last", "size_hint", "min", "max", "sum", "find", "rfind",
    "position", "rposition", "all", "any", "advance_by", "advance_back_by", "skip", "step_by", "for_each", "is_sorted", "eq",
];

fn op_name(op: IterOp) -> &'static str {
    match op {
        IterOp::Count => "count",
        IterOp::Last => "last",
        IterOp::Fold => "fold",
        IterOp::Max => "max",
        IterOp::Eq => "eq",
        IterOp::Find(_) | IterOp::FindNone => "find",
        IterOp::Position(_) => "position",
        IterOp::All => "all",
        IterOp::Nth(_) => "nth",
        IterOp::Skip(_) => "skip",
        IterOp::StepBy(_) => "step_by",
        IterOp::RFold => "rfold",
        IterOp::RFind(_) => "rfind",
        IterOp::NthBack(_) => "nth_back",
        IterOp::RevNth(_) => "nth_back",
        IterOp::RPosition(_) => "rposition",
    }
}

fn op_arg(op: IterOp) -> u64 {
    match op {
        IterOp::Find(k) | IterOp::Position(k) | IterOp::Nth(k) | IterOp::Skip(k) | IterOp::StepBy(k) | IterOp::RFind(k) | IterOp::NthBack(k) | IterOp::RevNth(k) | IterOp::RPosition(k) => k as u64,
        _ => 0,
    }
}

fn totality_ops(n: usize, de: bool) -> Vec<IterOp> {
    let mut v = vec![IterOp::Count, IterOp::Last, IterOp::Fold, IterOp::Max, IterOp::FindNone, IterOp::All, IterOp::Position(UMAX), IterOp::Skip(UMAX), IterOp::StepBy(UMAX)];
    for k in [0, 1, n.wrapping_sub(1), n, n.wrapping_add(1), UMAX / 2, UMAX - 1, UMAX] {
        v.push(IterOp::Nth(k));
        if de {
            v.push(IterOp::NthBack(k));
            v.push(IterOp::RevNth(k));
        }
    }
    if de {
        v.extend([IterOp::RFold, IterOp::RFind(UMAX), IterOp::RPosition(UMAX)]);
    }
    v
}

fn prefixes(n: usize) -> Vec<usize> {
    let mut v = vec![0, 1, n.saturating_sub(1), n, n + 2];
    v.sort_unstable();
    v.dedup();
    v
}

/// Every overridable iterator method with arguments up to usize::MAX, after prefixes that end before, at and after
/// exhaustion; the operation is followed by len() / next() / len() (iterops::apply_fwd): nothing may panic.
fn iter_totality<T: Copy + Ord, I: Iterator<Item = T>>(ctx: &mut Ctx, n: usize, len_of: Option<fn(&I) -> usize>, mk: impl Fn() -> I) {
    for a in prefixes(n) {
        for op in totality_ops(n, false) {
            call(ctx, op_name(op), a as u128, op_arg(op), 0, false, || {
                let mut it = mk();
                advance(&mut it, a);
                apply_fwd(it, &[], op, len_of).nums.len()
            });
        }
    }
}

fn idx_alphabet(n: usize) -> Vec<usize> {
    let mut v = vec![0, 1, 2, n.wrapping_sub(1), n, n.wrapping_add(1), 63, 64, 65, 255, 256, 257, 511, 512, 513, 2047, 2048, 2049, 4095, 4096, 4097, 1 << 32, UMAX / 2, UMAX - 1, UMAX];
    v.extend(mc::sweep::wrap_args(n));
    v.extend([(1usize << 58) + n.saturating_sub(1), (1 << 61) + n.saturating_sub(1), (1 << 61) + n / 8, (1 << 58) + n / 64]);
    v.sort_unstable();
    v.dedup();
    v
}

/// One call: a panic is a violation unless `allowed` (the documented panic condition holds for these
/// arguments) or the message is an allocation failure. Returns the value if the call returned.
fn call<R>(ctx: &mut Ctx, method: &'static str, a0: u128, a1: u64, a2: u64, allowed: bool, f: impl FnOnce() -> R) -> Option<R> {
    ctx.evals += 1;
    mc::jrn::set_query(method, a0, a1, a2);
    match trap(f) {
        Ok(r) => {
            ctx.count("calls_returned");
            Some(r)
        }
        Err(msg) => {
            let alloc = msg.contains("capacity overflow") || msg.contains("memory allocation") || msg.contains("alloc");
            if allowed || alloc {
                ctx.count("documented_panics_observed");
            } else {
                ctx.violation(method, "", format!("{}({})", method, fmt_args(method, a0, a1, a2)), "a value, None, or a documented panic".into(), format!("PANIC: {msg}"));
            }
            None
        }
    }
}

/// A call that may legitimately abort the process (allocation failure): executed in a forked child.
/// Allowed outcomes: returns; panics with an allocation-failure message (or `documented`); aborts with
/// std's "memory allocation of N bytes failed". Anything else (other panic, other signal) is a violation.
fn hostile(ctx: &mut Ctx, method: &'static str, a1: u64, documented: bool, f: impl FnOnce()) {
    ctx.evals += 1;
    mc::jrn::set_query(method, 0, a1, 0);
    let mut fds = [0i32; 2];
    unsafe {
        if libc::pipe(fds.as_mut_ptr()) != 0 {
            return;
        }
        let pid = libc::fork();
        if pid == 0 {
            libc::close(fds[0]);
            libc::dup2(fds[1], 2);
            // default disposition for SIGABRT: the parent wants to see the signal
            libc::signal(libc::SIGABRT, libc::SIG_DFL);
            let code = match trap(f) {
                Ok(()) => 0,
                Err(msg) => {
                    let m = format!("PANICMSG {msg}\n");
                    libc::write(2, m.as_ptr() as *const libc::c_void, m.len());
                    3
                }
            };
            libc::_exit(code);
        }
        libc::close(fds[1]);
        let mut out = Vec::new();
        let mut buf = [0u8; 4096];
        loop {
            let n = libc::read(fds[0], buf.as_mut_ptr() as *mut libc::c_void, buf.len());
            if n <= 0 {
                break;
            }
            out.extend_from_slice(&buf[..n as usize]);
        }
        libc::close(fds[0]);
        let mut status = 0i32;
        libc::waitpid(pid, &mut status, 0);
        let text = String::from_utf8_lossy(&out).to_string();
        let q = format!("{}({})", method, fmt_args(method, 0, a1, 0));
        if libc::WIFEXITED(status) {
            match libc::WEXITSTATUS(status) {
                0 => ctx.count("hostile_calls_returned"),
                3 => {
                    let msg = text.lines().find(|l| l.starts_with("PANICMSG ")).map(|l| l[9..].to_string()).unwrap_or_default();
                    let alloc = msg.contains("capacity overflow") || msg.contains("memory allocation");
                    if documented || alloc {
                        ctx.count("hostile_calls_allocation_or_documented_panic");
                    } else {
                        ctx.violation(method, "", q, "a value, an allocation failure or a documented panic".into(), format!("PANIC: {msg}"));
                    }
                }
                c => ctx.violation(method, "", q, "a value, an allocation failure or a documented panic".into(), format!("ABORT: exit status {c} {}", &text[..text.len().min(200)])),
            }
        } else if libc::WIFSIGNALED(status) {
            let sig = libc::WTERMSIG(status);
            if sig == libc::SIGABRT && text.contains("memory allocation of") {
                ctx.count("hostile_calls_allocation_failure_abort");
            } else {
                ctx.violation(method, "crash", q, "a value, an allocation failure or a documented panic".into(), format!("{} {}", mc::jrn::sig_name(sig), &text[..text.len().min(300)]));
            }
        }
    }
}

/// `call` for a query with an Option answer: when the arguments are invalid the answer must be None.
fn call_opt<T: std::fmt::Debug>(ctx: &mut Ctx, method: &'static str, a0: u128, a1: u64, invalid: bool, f: impl FnOnce() -> Option<T>) {
    if let Some(Some(v)) = call(ctx, method, a0, a1, 0, false, f) {
        if invalid {
            ctx.violation(method, "invalid-args", format!("{}({})", method, fmt_args(method, a0, a1, 0)), "None (arguments do not denote a valid position / symbol / occurrence)".into(), format!("Some({v:?})"));
        }
    }
}

fn common<V: Clone + PartialEq + std::fmt::Debug + Serialize + DeserializeOwned + SpaceUsage + Default>(ctx: &mut Ctx, v: &V) {
    call(ctx, "clone", 0, 0, 0, false, || v.clone());
    call(ctx, "eq", 0, 0, 0, false, || *v == v.clone());
    call(ctx, "eq", 1, 0, 0, false, || *v == V::default());
    call(ctx, "fmt", 0, 0, 0, false, || format!("{v:?}").len());
    call(ctx, "space_usage_byte", 0, 0, 0, false, || v.space_usage_byte());
    call(ctx, "space_usage_KiB", 0, 0, 0, false, || v.space_usage_KiB());
    call(ctx, "space_usage_MiB", 0, 0, 0, false, || v.space_usage_MiB());
    call(ctx, "space_usage_GiB", 0, 0, 0, false, || v.space_usage_GiB());
    call(ctx, "bincode", 0, 0, 0, false, || bincode::deserialize::<V>(&bincode::serialize(v).unwrap()).is_ok());
}

/// value, its clone and its bincode round trip (each a separately obtained state)
fn variants<V: Clone + Serialize + DeserializeOwned>(name: &str, v: V) -> Vec<(String, V)> {
    let mut out = vec![(name.to_string(), v.clone()), (format!("{name}.clone()"), v.clone())];
    if let Ok(b) = bincode::serialize(&v) {
        if let Ok(x) = bincode::deserialize::<V>(&b) {
            out.push((format!("deserialize(serialize({name}))"), x));
        }
    }
    out
}

/// States reached by clone_from: every third state of the zoo is copied into (a clone of) another state which held something
/// else before - alternately the largest state of the zoo (by serialized size) and one chosen by rotation.
fn with_clone_from<V: Clone + Serialize>(zoo: &mut Vec<(String, V)>) {
    let n = zoo.len();
    let largest = (0..n).max_by_key(|&i| bincode::serialized_size(&zoo[i].1).unwrap_or(0)).unwrap_or(0);
    for i in (0..n).step_by(3) {
        let j = if (i / 3) % 2 == 0 { largest } else { (i * 7 + 3) % n };
        if j != i {
            let mut d = zoo[j].1.clone();
            d.clone_from(&zoo[i].1);
            let name = format!("clone_from({}) into a value that was {}", zoo[i].0, zoo[j].0);
            zoo.push((name, d));
        }
    }
}

/// What a caller does next with a bit vector it has just mutated: totals, clearing bits, freezing it and indexing it.
/// (A mutator that leaves the value inconsistent - stale lines, a stale counter - shows here, not in the mutator.)
fn follow_up(mut c: BitVectorMut) -> usize {
    let n = c.len();
    let mut acc = c.count_zeros() + c.count_ones();
    for i in [n.wrapping_sub(1), n / 2, n / 3, 0] {
        if i < n {
            c.set(i, false);
            acc += c.count_ones();
        }
    }
    let bv: BitVector = c.into();
    acc += bv.count_zeros();
    let w = RSWide::new(bv.clone());
    let nr = RSNarrow::new(bv);
    acc + w.n_zeros() + nr.n_zeros() + w.select0(0).unwrap_or(0) + nr.select1(0).unwrap_or(0)
}

const SIZES: [usize; 22] = [0, 1, 2, 63, 64, 65, 127, 128, 129, 255, 256, 257, 511, 512, 513, 2047, 2048, 2049, 4095, 4096, 4097, 8193];

// ------------------------------------------------------------------------------------------------
// bit vectors

fn bits_of(n: usize, kind: u8) -> Vec<bool> {
    (0..n)
        .map(|i| match kind {
            0 => false,
            1 => true,
            2 => i % 2 == 0,
            _ => (i * 7 + i / 13) % 5 < 2,
        })
        .collect()
}

macro_rules! bv_readers {
    ($ctx:expr, $b:expr, $n:expr, $lines:expr) => {{
        let ctx: &mut Ctx = &mut *$ctx;
        let (b, n) = ($b, $n);
        call(ctx, "len", 0, 0, 0, false, || b.len());
        call(ctx, "is_empty", 0, 0, 0, false, || b.is_empty());
        call(ctx, "count_ones", 0, 0, 0, false, || b.count_ones());
        call(ctx, "count_zeros", 0, 0, 0, false, || b.count_zeros());
        for &i in &idx_alphabet(n) {
            call_opt(ctx, "get", 0, i as u64, i >= n, || b.get(i));
            for len in [0usize, 1, 2, 63, 64, 65, UMAX] {
                let invalid = len == 0 || len > 64 || i.checked_add(len).map_or(true, |e| e > n);
                mc::jrn::set_query("get_bits", 0, i as u64, len as u64);
                if let Some(Some(v)) = call(ctx, "get_bits", 0, i as u64, len as u64, false, || b.get_bits(i, len)) {
                    if invalid {
                        ctx.violation("get_bits", "invalid-args", format!("get_bits({i}, {len})"), "None".into(), format!("Some({v})"));
                    }
                }
            }
            // a word index outside the allocated lines is the documented panic
            let words = $lines * 8;
            call(ctx, "get_word", 0, i as u64, 0, i >= words, || b.get_word(i));
            call(ctx, "ones_with_pos", 0, i as u64, 0, false, || quiet(|| b.ones_with_pos(i).take(70_000).count()));
            call(ctx, "zeros_with_pos", 0, i as u64, 0, false, || quiet(|| b.zeros_with_pos(i).take(70_000).count()));
        }
        call(ctx, "ones", 0, 0, 0, false, || b.ones().count());
        call(ctx, "zeros", 0, 0, 0, false, || b.zeros().count());
        call(ctx, "iter", 0, 0, 0, false, || {
            let mut it = b.iter();
            let mut c = 0usize;
            while it.next().is_some() {
                c += 1;
            }
            // keep calling after exhaustion
            for _ in 0..3 {
                c += it.next().is_some() as usize + it.len();
            }
            c
        });
        iter_totality(&mut *$ctx, $n, Some(|i: &qwt::bitvector::BitVectorIter| i.len()), || b.iter());
        let n1 = b.count_ones();
        iter_totality(&mut *$ctx, n1, None, || b.ones());
        iter_totality(&mut *$ctx, $n - n1, None, || b.zeros());
    }};
}

fn zoo_bitvector(ctx: &mut Ctx) {
    ctx.set_ty("BitVector");
    let mut zoo: Vec<(String, BitVector)> = variants("BitVector::default()", BitVector::default());
    zoo.extend(variants("collect(empty bools)", Vec::<bool>::new().into_iter().collect::<BitVector>()));
    zoo.extend(variants("collect(empty positions)", Vec::<usize>::new().into_iter().collect::<BitVector>()));
    for &n in &SIZES {
        for kind in 0..4u8 {
            if n > 600 && kind != 3 {
                continue;
            }
            let b: BitVector = bits_of(n, kind).into_iter().collect();
            zoo.push((format!("collect({n} bools, kind {kind})"), b.clone()));
            zoo.push((format!("From<BitVectorMut>(From<BitVector>({n}, kind {kind}))"), BitVector::from(BitVectorMut::from(b))));
        }
    }
    zoo.push(("collect(positions [0,63,64,511,512,4095])".into(), [0usize, 63, 64, 511, 512, 4095].into_iter().collect()));
    zoo.push(("collect(u8 positions)".into(), [3u8, 200, 255].into_iter().collect()));
    zoo.push(("collect(i64 positions)".into(), [0i64, 5, 900].into_iter().collect()));
    with_clone_from(&mut zoo);
    for (name, b) in &zoo {
        ctx.case_desc = serde_json::json!({"Zoo": {"ty": "BitVector", "elem": "", "state": name}});
        ctx.note_input(&name, true);
        let n = b.len();
        let lines = call(ctx, "n_lines", 0, 0, 0, false, || b.n_lines()).unwrap_or(0);
        bv_readers!(ctx, b, n, lines);
        for &i in &idx_alphabet(n) {
            call(ctx, "prefetch_line", 0, i as u64, 0, false, || b.prefetch_line(i));
        }
        common(ctx, b);
        call(ctx, "into_iter", 0, 0, 0, false, || {
            let mut it = b.clone().into_iter();
            let mut c = 0usize;
            while it.next().is_some() {
                c += 1;
            }
            for _ in 0..3 {
                c += it.next().is_some() as usize + it.len();
            }
            c
        });
        call(ctx, "into_iter", 1, 0, 0, false, || (&*b).into_iter().count());
        iter_totality(ctx, n, Some(|i: &qwt::bitvector::BitVectorIntoIter| i.len()), || b.clone().into_iter());
        iter_totality(ctx, n, Some(|i: &qwt::bitvector::BitVectorIter| i.len()), || (&*b).into_iter());
        call(ctx, "as_ref", 0, 0, 0, false, || AsRef::<BitVector>::as_ref(b).len());
    }
    // the position iterator has public constructors over an arbitrary word slice and bit count
    ctx.case_desc = serde_json::json!({"Zoo": {"ty": "BitVector", "elem": "", "state": "BitVectorBitPositionsIter"}});
    let words = [0u64, u64::MAX, 1, 1 << 63, 0, 0, 0, 5];
    for data in [&words[..0], &words[..1], &words[..2], &words[..]] {
        for n_bits in [0usize, 1, 63, 64, 65, 128, 512, 513, 1 << 32, UMAX] {
            call(ctx, "new", 1, n_bits as u64, data.len() as u64, false, || qwt::bitvector::BitVectorBitPositionsIter::<true>::new(data, n_bits).take(2000).count());
            call(ctx, "new", 0, n_bits as u64, data.len() as u64, false, || qwt::bitvector::BitVectorBitPositionsIter::<false>::new(data, n_bits).take(2000).count());
            for pos in [0usize, 1, 63, 64, 65, 127, 128, 511, 512, 1 << 32, UMAX - 64, UMAX] {
                call(ctx, "with_pos", 1, n_bits as u64, pos as u64, false, || quiet(|| qwt::bitvector::BitVectorBitPositionsIter::<true>::with_pos(data, n_bits, pos).take(2000).count()));
                call(ctx, "with_pos", 0, n_bits as u64, pos as u64, false, || quiet(|| qwt::bitvector::BitVectorBitPositionsIter::<false>::with_pos(data, n_bits, pos).take(2000).count()));
            }
        }
    }
    // constructors on hostile input: documented panic = a value that cannot be converted to usize
    ctx.case_desc = serde_json::json!({"Zoo": {"ty": "BitVector", "elem": "", "state": "constructors"}});
    call(ctx, "from_iter", 1, 0, 0, true, || vec![3i32, -1].into_iter().collect::<BitVector>().len());
    call(ctx, "from_iter", 2, 0, 0, true, || vec![-5i8].into_iter().collect::<BitVector>().len());
    call(ctx, "from_iter", 3, 0, 0, false, || vec![5usize, 2, 5, 0].into_iter().collect::<BitVector>().len());
    call(ctx, "from_iter", 4, 0, 0, false, || vec![7u128, 7, 1000].into_iter().collect::<BitVector>().len());
}

fn zoo_bitvectormut(ctx: &mut Ctx) {
    ctx.set_ty("BitVectorMut");
    let mut zoo: Vec<(String, BitVectorMut)> = variants("BitVectorMut::default()", BitVectorMut::default());
    zoo.extend(variants("BitVectorMut::new()", BitVectorMut::new()));
    zoo.extend(variants("with_capacity(0)", BitVectorMut::with_capacity(0)));
    zoo.extend(variants("with_capacity(1000)", BitVectorMut::with_capacity(1000)));
    for &n in &SIZES {
        zoo.push((format!("with_zeros({n})"), BitVectorMut::with_zeros(n)));
        for kind in 1..4u8 {
            if n > 600 && kind != 3 {
                continue;
            }
            zoo.push((format!("collect({n} bools, kind {kind})"), bits_of(n, kind).into_iter().collect()));
        }
    }
    zoo.push(("collect(positions [5,2,5,700])".into(), [5usize, 2, 5, 700].into_iter().collect()));
    zoo.push(("From<BitVector>(collect(130 bools))".into(), BitVectorMut::from(bits_of(130, 3).into_iter().collect::<BitVector>())));
    with_clone_from(&mut zoo);
    for (name, b0) in &zoo {
        ctx.case_desc = serde_json::json!({"Zoo": {"ty": "BitVectorMut", "elem": "", "state": name}});
        ctx.note_input(&name, true);
        let b = b0;
        let n = b.len();
        let lines = (n + 511) / 512;
        bv_readers!(ctx, b, n, lines);
        common(ctx, b);
        call(ctx, "into_iter", 0, 0, 0, false, || b.clone().into_iter().count());
        call(ctx, "as_ref", 0, 0, 0, false, || AsRef::<BitVectorMut>::as_ref(b).len());
        // mutators, each on a fresh clone; documented panics are allowed exactly when their condition holds
        for bit in [false, true] {
            call(ctx, "push", bit as u128, 0, 0, false, || {
                let mut c = b.clone();
                c.push(bit);
                follow_up(c)
            });
        }
        for (bits, len) in [(0u64, 0usize), (1, 1), (3, 1), (0, 64), (u64::MAX, 64), (u64::MAX, 63), (5, 65), (0, 65), (1, UMAX), (0, UMAX)] {
            let documented = len > 64 || (len < 64 && (bits >> len) != 0);
            call(ctx, "append_bits", bits as u128, len as u64, 0, documented, || {
                let mut c = b.clone();
                c.append_bits(bits, len);
                follow_up(c)
            });
        }
        for z in [0usize, 1, 63, 64, 65, 511, 512, 513, 5000] {
            call(ctx, "extend_with_zeros", 0, z as u64, 0, false, || {
                let mut c = b.clone();
                c.extend_with_zeros(z);
                follow_up(c)
            });
        }
        // beyond usize::MAX bits: the documented panic ("size exceeds usize::MAX bits") or an allocation failure
        if n == 0 || n == 1 || n == 513 {
            hostile(ctx, "extend_with_zeros", u64::MAX, n > 0, || {
                let mut c = b.clone();
                c.extend_with_zeros(UMAX);
            });
            hostile(ctx, "extend_with_zeros", u64::MAX - 4096, false, || {
                let mut c = b.clone();
                c.extend_with_zeros(UMAX - 4096);
            });
        }
        for &i in &idx_alphabet(n) {
            for bit in [false, true] {
                call(ctx, "set", bit as u128, i as u64, 0, i >= n, || {
                    let mut c = b.clone();
                    c.set(i, bit);
                    c.count_ones()
                });
            }
            for (len, bits) in [(0usize, 0u64), (1, 1), (1, 2), (4, 15), (64, u64::MAX), (64, 0), (63, 1 << 63), (65, 0), (UMAX, 0), (UMAX, 1)] {
                let documented = len > 64 || i.checked_add(len).map_or(true, |e| e > n) || (len < 64 && (bits >> len) != 0);
                call(ctx, "set_bits", bits as u128, i as u64, len as u64, documented, || {
                    let mut c = b.clone();
                    c.set_bits(i, len, bits);
                    c.count_ones()
                });
            }
        }
        call(ctx, "shrink_to_fit", 0, 0, 0, false, || {
            let mut c = b.clone();
            c.shrink_to_fit();
            follow_up(c)
        });
        call(ctx, "extend", 0, 0, 0, false, || {
            let mut c = b.clone();
            c.extend(vec![true, false, true]);
            c.extend(Vec::<bool>::new());
            follow_up(c)
        });
        for pos in [vec![], vec![0usize], vec![n], vec![n + 1000], vec![5, 2, 5], vec![n.saturating_sub(1), 0]] {
            call(ctx, "extend", 1, pos.len() as u64, 0, false, || {
                let mut c = b.clone();
                c.extend(pos.clone());
                c.count_ones()
            });
        }
    }
    ctx.case_desc = serde_json::json!({"Zoo": {"ty": "BitVectorMut", "elem": "", "state": "constructors"}});
    for n in [0usize, 1, 64, 1 << 20] {
        call(ctx, "with_capacity", 0, n as u64, 0, false, || BitVectorMut::with_capacity(n).len());
    }
    // capacities / sizes that cannot be allocated: only an allocation failure is acceptable
    for n in [UMAX, UMAX - 70, UMAX / 2, 1usize << 62] {
        hostile(ctx, "with_capacity", n as u64, false, || {
            let _ = BitVectorMut::with_capacity(n);
        });
        hostile(ctx, "with_zeros", n as u64, false, || {
            let _ = BitVectorMut::with_zeros(n);
        });
    }
}

// ------------------------------------------------------------------------------------------------
// quad vectors

fn quads_of(n: usize, kind: u8) -> Vec<u8> {
    (0..n)
        .map(|i| match kind {
            0 => 0,
            1 => 3,
            2 => (i % 4) as u8,
            _ => ((i * 5 + i / 11) % 7 % 4) as u8,
        })
        .collect()
}

fn zoo_qvector(ctx: &mut Ctx) {
    ctx.set_ty("QVector");
    let mut zoo: Vec<(String, QVector)> = variants("QVector::default()", QVector::default());
    zoo.extend(variants("collect(empty)", Vec::<u8>::new().into_iter().collect::<QVector>()));
    zoo.extend(variants("QVectorBuilder::new().build()", QVectorBuilder::new().build()));
    zoo.extend(variants("QVectorBuilder::with_capacity(100).build()", QVectorBuilder::with_capacity(100).build()));
    for &n in &SIZES {
        zoo.push((format!("collect({n} quads)"), quads_of(n, 3).into_iter().collect()));
    }
    zoo.push(("collect(i8 [-1,-128,127])".into(), [-1i8, -128, 127].into_iter().collect()));
    zoo.push(("collect(u128 [MAX, 0])".into(), [u128::MAX, 0].into_iter().collect()));
    with_clone_from(&mut zoo);
    for (name, q) in &zoo {
        ctx.case_desc = serde_json::json!({"Zoo": {"ty": "QVector", "elem": "", "state": name}});
        ctx.note_input(&name, true);
        let n = call(ctx, "len", 0, 0, 0, false, || q.len()).unwrap_or(0);
        call(ctx, "is_empty", 0, 0, 0, false, || q.is_empty());
        for &i in &idx_alphabet(n) {
            call_opt(ctx, "get", 0, i as u64, i >= n, || q.get(i));
        }
        call(ctx, "iter", 0, 0, 0, false, || {
            let mut it = q.iter();
            let mut c = 0;
            while it.next().is_some() {
                c += 1;
            }
            for _ in 0..3 {
                c += it.next().is_some() as usize;
            }
            c
        });
        call(ctx, "into_iter", 0, 0, 0, false, || q.clone().into_iter().count());
        call(ctx, "into_iter", 1, 0, 0, false, || (&*q).into_iter().count());
        iter_totality(ctx, n, None, || q.iter());
        iter_totality(ctx, n, None, || q.clone().into_iter());
        iter_totality(ctx, n, None, || (&*q).into_iter());
        call(ctx, "as_ref", 0, 0, 0, false, || AsRef::<QVector>::as_ref(q).len());
        common(ctx, q);
    }
    ctx.case_desc = serde_json::json!({"Zoo": {"ty": "QVectorBuilder", "elem": "", "state": "builder"}});
    ctx.set_ty("QVectorBuilder");
    for n in [0usize, 1, 255, 256, 257, 1 << 20] {
        call(ctx, "with_capacity", 0, n as u64, 0, false, || QVectorBuilder::with_capacity(n).build().len());
    }
    // a capacity that cannot be allocated: allocation failure (capacity overflow) is the only acceptable panic
    for n in [UMAX, UMAX - 300, UMAX / 2 + 1, UMAX / 2, 1usize << 62] {
        hostile(ctx, "with_capacity", n as u64, false, || {
            QVectorBuilder::with_capacity(n);
        });
    }
    for v in [0u8, 3, 4, 255] {
        call(ctx, "push", v as u128, 0, 0, false, || {
            let mut b = QVectorBuilder::new();
            for _ in 0..300 {
                b.push(v);
            }
            b.build().len()
        });
    }
    call(ctx, "extend", 0, 0, 0, false, || {
        let mut b: QVectorBuilder = [1i64, -7, i64::MIN].into_iter().collect();
        b.extend([u128::MAX, 5]);
        b.extend(Vec::<u8>::new());
        let c = b.clone();
        (b == c, b.build().len())
    });
}

fn zoo_quadrs<X: QuadRS>(ctx: &mut Ctx) {
    ctx.set_ty(X::NAME);
    let mut zoo: Vec<(String, X)> = variants("default()", X::default());
    zoo.extend(variants("new(&[])", X::new_u8(&[])));
    zoo.extend(variants("From<QVector::default()>", X::from(QVector::default())));
    for &n in &SIZES {
        for kind in 0..4u8 {
            // constant vectors: the small sizes and the ones that fill whole superblocks (counters of 2048 and more)
            if n > 600 && n < 4096 && kind < 2 {
                continue;
            }
            zoo.push((format!("new({n} quads, kind {kind})"), X::new_u8(&quads_of(n, kind))));
        }
    }
    zoo.extend(variants("collect(1000 quads)", X::collect_u64(&quads_of(1000, 3))));
    zoo.push(("new(3 x 8192 + 5 quads, periodic)".into(), X::new_u8(&quads_of(3 * 8192 + 5, 2))));
    with_clone_from(&mut zoo);
    for (name, t) in &zoo {
        ctx.case_desc = serde_json::json!({"Zoo": {"ty": X::NAME, "elem": "", "state": name}});
        ctx.note_input(&name, true);
        let n = call(ctx, "len", 0, 0, 0, false, || t.len_()).unwrap_or(0);
        call(ctx, "is_empty", 0, 0, 0, false, || t.is_empty_());
        let idx = idx_alphabet(n);
        for &i in &idx {
            call_opt(ctx, "get", 0, i as u64, i >= n, || t.get(i));
            call(ctx, "prefetch_info", 0, i as u64, 0, false, || t.prefetch_info(i));
            call(ctx, "prefetch_data", 0, i as u64, 0, false, || t.prefetch_data(i));
            for s in QUAD_SYMS {
                call_opt(ctx, "rank", s as u128, i as u64, s > 3 || i > n, || t.rank(s, i));
                // as an occurrence index: anything >= n cannot exist
                call_opt(ctx, "select", s as u128, i as u64, s > 3 || i >= n, || t.select(s, i));
            }
        }
        for s in QUAD_SYMS {
            call_opt(ctx, "occs", s as u128, 0, s > 3, || t.occs(s));
            call_opt(ctx, "occs_smaller", s as u128, 0, s > 3, || t.occs_smaller(s));
        }
        call(ctx, "iter", 0, 0, 0, false, || t.iter_vec().len());
        call(ctx, "into_iter", 0, 0, 0, false, || t.clone().into_iter_vec().len());
        call(ctx, "into_iter", 1, 0, 0, false, || t.ref_into_iter_vec().len());
        for which in 0..3u8 {
            for a in prefixes(n) {
                for op in totality_ops(n, false) {
                    call(ctx, op_name(op), a as u128, op_arg(op), which as u64, false, || t.iter_op(which, a, &[], op).nums.len());
                }
            }
        }
        common(ctx, t);
    }
}

// ------------------------------------------------------------------------------------------------
// rank/select bit vectors, DArray

fn zoo_binrs<X: BinRS>(ctx: &mut Ctx) {
    ctx.set_ty(X::NAME);
    let mut zoo: Vec<(String, X)> = variants("default()", X::default());
    zoo.extend(variants("new(BitVector::default())", X::new_(BitVector::default())));
    for &n in &SIZES {
        for kind in 0..4u8 {
            if n > 600 && kind == 2 {
                continue;
            }
            zoo.push((format!("new({n} bits, kind {kind})"), X::new_(bits_of(n, kind).into_iter().collect())));
        }
    }
    for n in [32768usize, 32769, 65536] {
        zoo.push((format!("from({n} ones)"), X::from(bits_of(n, 1).into_iter().collect::<BitVector>())));
        zoo.push((format!("from({n} zeros)"), X::from(bits_of(n, 0).into_iter().collect::<BitVector>())));
    }
    with_clone_from(&mut zoo);
    for (name, t) in &zoo {
        ctx.case_desc = serde_json::json!({"Zoo": {"ty": X::NAME, "elem": "", "state": name}});
        ctx.note_input(&name, true);
        let ones = call(ctx, "n_ones", 0, 0, 0, false, || t.n_ones_()).unwrap_or(0);
        let zeros = call(ctx, "n_zeros", 0, 0, 0, false, || t.n_zeros_inherent()).unwrap_or(0);
        call(ctx, "n_zeros", 1, 0, 0, false, || RankBin::n_zeros(t));
        call(ctx, "bv_len", 0, 0, 0, false, || t.bv_len_());
        let n = ones + zeros;
        for &i in &idx_alphabet(n) {
            call_opt(ctx, "get", 0, i as u64, i >= n, || t.get(i));
            call_opt(ctx, "rank1", 0, i as u64, i > n, || t.rank1(i));
            call_opt(ctx, "rank0", 0, i as u64, i > n, || t.rank0(i));
            call_opt(ctx, "select1", 0, i as u64, i >= ones, || t.select1(i));
            call_opt(ctx, "select0", 0, i as u64, i >= zeros, || t.select0(i));
        }
        common(ctx, t);
    }
}

fn zoo_rswide_extra(ctx: &mut Ctx) {
    ctx.set_ty("RSWide");
    for (name, t) in [("default()", RSWide::default()), ("new(1000 bits)", RSWide::new(bits_of(1000, 3).into_iter().collect()))] {
        ctx.case_desc = serde_json::json!({"Zoo": {"ty": "RSWide", "elem": "", "state": name}});
        for &i in &idx_alphabet(1000) {
            call(ctx, "prefetch_info", 0, i as u64, 0, false, || t.prefetch_info(i));
            call(ctx, "prefetch_data", 0, i as u64, 0, false, || t.prefetch_data(i));
        }
    }
}

fn zoo_darray<const S0: bool>(ctx: &mut Ctx) {
    let tyname = if S0 { "DArray<true>" } else { "DArray<false>" };
    ctx.set_ty(tyname);
    let mut zoo: Vec<(String, DArray<S0>)> = variants("default()", DArray::<S0>::default());
    zoo.extend(variants("new(BitVector::default())", DArray::<S0>::new(BitVector::default())));
    zoo.extend(variants("collect(empty bools)", Vec::<bool>::new().into_iter().collect::<DArray<S0>>()));
    zoo.extend(variants("collect(empty positions)", Vec::<usize>::new().into_iter().collect::<DArray<S0>>()));
    for &n in &SIZES {
        for kind in 0..4u8 {
            if n > 600 && kind == 2 {
                continue;
            }
            zoo.push((format!("collect({n} bools, kind {kind})"), bits_of(n, kind).into_iter().collect()));
        }
    }
    zoo.push(("sparse then dense groups".into(), BitGen::Groups { groups: vec![Grp::S, Grp::D], partial: 33, pk: Grp::T2, lead: 3, tail: 5, complement: false }.bits().into_iter().collect()));
    zoo.push(("complemented sparse then dense groups".into(), BitGen::Groups { groups: vec![Grp::S, Grp::D], partial: 33, pk: Grp::S, lead: 3, tail: 5, complement: true }.bits().into_iter().collect()));
    zoo.push(("collect(positions [0, 70000])".into(), [0usize, 70000].into_iter().collect()));
    with_clone_from(&mut zoo);
    for (name, t) in &zoo {
        ctx.case_desc = serde_json::json!({"Zoo": {"ty": tyname, "elem": "", "state": name}});
        ctx.note_input(&name, true);
        let n = call(ctx, "len", 0, 0, 0, false, || t.len()).unwrap_or(0);
        call(ctx, "is_empty", 0, 0, 0, false, || t.is_empty());
        let ones = call(ctx, "count_ones", 0, 0, 0, false, || t.count_ones()).unwrap_or(0);
        let zeros = call(ctx, "count_zeros", 0, 0, 0, false, || t.count_zeros()).unwrap_or(0);
        for &i in &idx_alphabet(n) {
            call_opt(ctx, "get", 0, i as u64, i >= n, || t.get(i));
            call_opt(ctx, "select1", 0, i as u64, i >= ones, || t.select1(i));
            // without select0 support the documented panic
            if let Some(Some(v)) = call(ctx, "select0", 0, i as u64, 0, !S0, || t.select0(i)) {
                if i >= zeros {
                    ctx.violation("select0", "invalid-args", format!("select0({i})"), "None".into(), format!("Some({v})"));
                }
            }
            call(ctx, "ones_with_pos", 0, i as u64, 0, false, || quiet(|| t.ones_with_pos(i).take(100_000).count()));
            call(ctx, "zeros_with_pos", 0, i as u64, 0, false, || quiet(|| t.zeros_with_pos(i).take(100_000).count()));
        }
        call(ctx, "ones", 0, 0, 0, false, || t.ones().count());
        call(ctx, "zeros", 0, 0, 0, false, || t.zeros().count());
        call(ctx, "iter", 0, 0, 0, false, || t.iter().count());
        {
            let n = t.len();
            let n1 = t.count_ones();
            iter_totality(ctx, n, Some(|i: &qwt::bitvector::BitVectorIter| i.len()), || t.iter());
            iter_totality(ctx, n1, None, || t.ones());
            iter_totality(ctx, n - n1, None, || t.zeros());
        }
        common(ctx, t);
    }
    ctx.case_desc = serde_json::json!({"Zoo": {"ty": tyname, "elem": "", "state": "constructors"}});
    // documented panics of the position-list constructor: not strictly increasing, not convertible
    call(ctx, "from_iter", 1, 0, 0, true, || vec![5usize, 5].into_iter().collect::<DArray<S0>>().len());
    call(ctx, "from_iter", 2, 0, 0, true, || vec![9usize, 2].into_iter().collect::<DArray<S0>>().len());
    call(ctx, "from_iter", 3, 0, 0, true, || vec![-4i32, 2].into_iter().collect::<DArray<S0>>().len());
    call(ctx, "from_iter", 4, 0, 0, false, || vec![0u8, 255].into_iter().collect::<DArray<S0>>().len());
}

// ------------------------------------------------------------------------------------------------
// trees

fn zoo_tree<X: Tree>(ctx: &mut Ctx) {
    ctx.set_ty(&X::name());
    let tmax: u128 = if X::T::BITS == 128 { u128::MAX } else { (1u128 << X::T::BITS) - 1 };
    let cap: u128 = if X::HUFF { 65535.min(tmax) } else { tmax };
    let mk = |v: Vec<u128>| -> Vec<X::T> { v.into_iter().map(|x| X::T::from_u128(x.min(cap))).collect() };
    let build = |v: Vec<X::T>, path: u8| -> X {
        if X::HUFF {
            qwt::verif_hooks::set_tie_script(Some(vec![]));
        }
        let t = match path {
            0 => X::new_(&mut v.clone()),
            1 => X::from_vec(v),
            _ => X::collect_(v),
        };
        qwt::verif_hooks::set_tie_script(None);
        t
    };
    let mut zoo: Vec<(String, X, u128)> = Vec::new();
    let add = |zoo: &mut Vec<(String, X, u128)>, name: &str, t: X, m: u128| {
        for (n, v) in variants(name, t) {
            zoo.push((n, v, m));
        }
    };
    add(&mut zoo, "default()", X::default(), 0);
    add(&mut zoo, "new(&mut [])", build(vec![], 0), 0);
    add(&mut zoo, "from(vec![])", build(vec![], 1), 0);
    add(&mut zoo, "collect(empty)", build(vec![], 2), 0);
    add(&mut zoo, "from(vec![0])", build(mk(vec![0]), 1), 0);
    add(&mut zoo, "from(vec![MAX])", build(mk(vec![cap]), 1), cap);
    add(&mut zoo, "from(vec![5; 70])", build(mk(vec![5; 70]), 1), 5);
    zoo.push(("from(vec![2; 5000])".into(), build(mk(vec![2; 5000]), 1), 2));
    zoo.push(("from(vec![7; 9000])".into(), build(mk(vec![7; 9000]), 2), 7));
    add(&mut zoo, "from([0,3,4,15,16,255,1,0])", build(mk(vec![0, 3, 4, 15, 16, 255, 1, 0]), 1), 255);
    add(&mut zoo, "from(wide values)", build(mk(vec![0, 1 << (X::T::BITS / 2), 1 << (X::T::BITS - 1), tmax - 1, tmax, 7]), 1), cap);
    for &n in &SIZES[3..] {
        let v: Vec<u128> = (0..n).map(|i| ((i * 7 + i / 3) % 17) as u128).collect();
        zoo.push((format!("collect({n} symbols over 17)"), build(mk(v), (n % 3) as u8), 16));
    }
    {
        // clone_from between tree states (the alphabet bound m of the source travels with it)
        let n = zoo.len();
        let largest = (0..n).max_by_key(|&i| bincode::serialized_size(&zoo[i].1).unwrap_or(0)).unwrap_or(0);
        for i in (0..n).step_by(3) {
            for j in [if (i / 3) % 2 == 0 { largest } else { (i * 7 + 3) % n }] {
                if j != i {
                    let mut d = zoo[j].1.clone();
                    d.clone_from(&zoo[i].1);
                    let name = format!("clone_from({}) into a value that was {}", zoo[i].0, zoo[j].0);
                    let m = zoo[i].2;
                    zoo.push((name, d, m));
                }
            }
        }
    }
    for (name, t, m) in &zoo {
        ctx.case_desc = serde_json::json!({"Zoo": {"ty": X::ALIAS, "elem": <X::T as Elem>::NAME, "state": name}});
        ctx.note_input(&name, true);
        let n = call(ctx, "len", 0, 0, 0, false, || t.len_()).unwrap_or(0);
        call(ctx, "is_empty", 0, 0, 0, false, || t.is_empty_());
        call(ctx, "n_levels", 0, 0, 0, false, || t.n_levels_());
        call(ctx, "sigma", 0, 0, 0, false, || t.sigma_());
        let m = *m;
        let mut syms: Vec<u128> = vec![0, 1, m.saturating_sub(1), m, m.saturating_add(1), m.saturating_add(2), 1 << 32, (1 << 32) + 1, tmax - 1, tmax, 5, 16, 17, 255, 256];
        if X::T::BITS == 128 {
            syms.extend([1u128 << 64, (1u128 << 64) + 5, (1u128 << 64).saturating_add(m)]);
        }
        syms.retain(|&s| s <= tmax);
        syms.sort_unstable();
        syms.dedup();
        let idx = idx_alphabet(n);
        for &i in &idx {
            call_opt(ctx, "get", 0, i as u64, i >= n, || t.get_(i));
            for &s in &syms {
                let c = X::T::from_u128(s);
                // symbols above the maximum are never valid; for Huffman trees absent symbols are invalid too
                let inv_sym = n == 0 || s > m;
                call_opt(ctx, "rank", s, i as u64, i > n || inv_sym, || t.rank_(c, i));
                call_opt(ctx, "select", s, i as u64, i >= n || inv_sym, || t.select_(c, i));
                if X::QUAD {
                    call_opt(ctx, "rank_prefetch", s, i as u64, i > n || inv_sym, || t.rank_prefetch_(c, i).unwrap());
                }
            }
        }
        for which in 0..3u8 {
            call(ctx, if which == 2 { "into_iter" } else { "iter" }, which as u128, 0, 0, false, || {
                let tc;
                let mut it: Box<dyn DeIter<X::T> + '_> = match which {
                    0 => t.iter_(),
                    1 => t.ref_into_iter_(),
                    _ => {
                        tc = t.clone();
                        tc.into_iter_()
                    }
                };
                let mut c = it.len();
                // alternate ends, go past exhaustion
                for j in 0..n + 4 {
                    c += if j % 3 == 0 { it.next_back().is_some() } else { it.next().is_some() } as usize;
                    c += it.len();
                }
                c
            });
            for a in prefixes(n) {
                for b in [0usize, 1, n + 1] {
                    for op in totality_ops(n, true) {
                        call(ctx, op_name(op), a as u128, op_arg(op), (which as u64) * 10 + b.min(2) as u64, false, || t.iter_op(which, a, b, &[], op).nums.len());
                    }
                }
            }
        }
        common(ctx, t);
    }
    // Huffman trees over 128-bit symbols that do not fit a table index: refusing (panic) is acceptable,
    // building a tree that answers wrongly is not (C02/C03); here only "no fault" is required
    if X::HUFF && X::T::BITS == 128 {
        ctx.case_desc = serde_json::json!({"Zoo": {"ty": X::ALIAS, "elem": <X::T as Elem>::NAME, "state": "symbols >= 2^64"}});
        call(ctx, "from", 0, 0, 0, true, || build(vec![X::T::from_u128(1u128 << 64), X::T::from_u128(3)], 1).len_());
    }
}

// ------------------------------------------------------------------------------------------------

#[derive(Debug, Clone, Serialize, Deserialize)]
enum SCase {
    /// the whole zoo of one type
    Zoo { ty: String, elem: String },
}

impl Case for SCase {
    fn run(&self, ctx: &mut Ctx) {
        let SCase::Zoo { ty, elem } = self;
        let keep = ctx.case_desc.clone();
        match ty.as_str() {
            "BitVector" => zoo_bitvector(ctx),
            "BitVectorMut" => zoo_bitvectormut(ctx),
            "QVector" => zoo_qvector(ctx),
            "RSQVector256" => zoo_quadrs::<RSQVector256>(ctx),
            "RSQVector512" => zoo_quadrs::<RSQVector512>(ctx),
            "RSNarrow" => zoo_binrs::<RSNarrow>(ctx),
            "RSWide" => {
                zoo_binrs::<RSWide>(ctx);
                zoo_rswide_extra(ctx)
            }
            "DArray<false>" => zoo_darray::<false>(ctx),
            "DArray<true>" => zoo_darray::<true>(ctx),
            alias => with_tree!(alias, elem.as_str(), zoo_tree(ctx)),
        }
        // replay granularity is the zoo of one type
        ctx.case_desc = keep;
    }
    fn weight(&self) -> u64 {
        20_000_000
    }
}

fn enumerate(_args: &Args) -> Vec<SCase> {
    let mut v = Vec::new();
    for ty in ["BitVector", "BitVectorMut", "QVector", "RSQVector256", "RSQVector512", "RSNarrow", "RSWide", "DArray<false>", "DArray<true>"] {
        v.push(SCase::Zoo { ty: ty.into(), elem: String::new() });
    }
    let all: Vec<&str> = PLAIN_QUAD.iter().chain(HUFF_QUAD.iter()).copied().chain(["WT", "HWT"]).collect();
    for al in all {
        for e in ELEMS {
            v.push(SCase::Zoo { ty: al.into(), elem: e.into() });
        }
    }
    v
}

fn main() {
    if std::env::args().any(|a| a == "--list-methods") {
        for m in METHODS {
            println!("{m}");
        }
        return;
    }
    main_with::<SCase>(enumerate);
}
