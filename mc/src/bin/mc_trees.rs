//! Explorer for the wavelet trees: C01 (QWaveletTree), C02 (HuffQWaveletTree), C03 (WT/HWT).
//! E1 input-space exploration + E3 exploration of every tie order of the Huffman builders.
use mc::gens::*;
use mc::refm::RefSeq;
use mc::run::*;
use mc::sweep::*;
use mc::trees::*;
use mc::with_tree;
use serde::{Deserialize, Serialize};
use std::collections::{BTreeMap, HashSet};

#[derive(Debug, Clone, Serialize, Deserialize)]
enum TCase {
    /// one tree over one sequence, full query sweep
    Seq { alias: String, elem: String, gen: Gen, vmap: String, ties: Option<Vec<usize>>, dense: usize, symcap: usize },
    /// all tie orders of the Huffman builder for one sequence (E3)
    Ties { alias: String, elem: String, gen: Gen, vmap: String, cap: usize },
}

impl Case for TCase {
    fn run(&self, ctx: &mut Ctx) {
        match self {
            TCase::Seq { alias, elem, gen, vmap, ties, dense, symcap } => {
                with_tree!(alias.as_str(), elem.as_str(), run_seq(ctx, gen, vmap, ties.clone(), *dense, *symcap))
            }
            TCase::Ties { alias, elem, gen, vmap, cap } => {
                with_tree!(alias.as_str(), elem.as_str(), run_ties(ctx, self, gen, vmap, *cap))
            }
        }
    }
    fn weight(&self) -> u64 {
        match self {
            TCase::Seq { gen, .. } => gen.approx_len() * 64,
            TCase::Ties { gen, cap, .. } => gen.approx_len() * 64 * (*cap as u64).min(720),
        }
    }
}

fn values<T: Elem>(gen: &Gen, vm: &str) -> Vec<T> {
    let a = gen.abstract_seq();
    let sigma = a.iter().copied().max().map_or(0, |m| m + 1);
    a.iter().map(|&s| T::from_u128(vmap(vm, T::BITS, s, sigma))).collect()
}

/// Code lengths (in bits) a Huffman builder of the given degree assigns, computed in the harness.
fn huff_shape<T: Elem>(r: &RefSeq<T>, quad: bool) -> (u32, usize, bool) {
    use minimum_redundancy::{BitsPerFragment, Coding};
    if r.occ.is_empty() {
        return (0, 0, false);
    }
    let freqs: BTreeMap<u128, usize> = r.occ.iter().map(|(k, v)| (k.to_u128(), v.len())).collect();
    let lens = Coding::from_frequencies(BitsPerFragment(if quad { 2 } else { 1 }), freqs).code_lengths();
    let mut l: Vec<u32> = lens.values().map(|&f| f * if quad { 2 } else { 1 }).collect();
    l.sort_unstable();
    let distinct: HashSet<u32> = l.iter().copied().collect();
    (*l.last().unwrap(), distinct.len(), l.first() != l.last())
}

fn opts_for<X: Tree>(ctx: &mut Ctx, r: &RefSeq<X::T>, dense: usize, symcap: usize) -> SweepOpts {
    let mut o = SweepOpts { dense_limit: dense, sym_cap: symcap, ..Default::default() };
    if X::HUFF {
        let (maxbits, nshapes, uneven) = huff_shape(r, X::QUAD);
        ctx.maxi("max_code_bits", maxbits as u64);
        if uneven {
            ctx.count("cases_with_levels_of_different_length");
        }
        if nshapes >= 3 {
            ctx.count("cases_with_3+_distinct_code_lengths");
        }
        if maxbits > 32 {
            o.class = "code_bits>32".into();
            ctx.count("cases_with_code_longer_than_32_bits");
        }
    }
    o
}

fn run_seq<X: Tree>(ctx: &mut Ctx, gen: &Gen, vm: &str, ties: Option<Vec<usize>>, dense: usize, symcap: usize) {
    let vals: Vec<X::T> = values(gen, vm);
    let r = RefSeq::new(&vals);
    ctx.set_ty(&X::name());
    ctx.note_input(&vals, !vals.is_empty());
    note_seq_shape(ctx, &r, X::QUAD);
    let o = opts_for::<X>(ctx, &r, dense, symcap);
    if X::HUFF {
        qwt::verif_hooks::set_tie_script(Some(ties.unwrap_or_default()));
    }
    let mut buf = vals.clone();
    let t = ctx.total("new", &o.class, 0, vals.len() as u64, 0, || X::new_(&mut buf));
    qwt::verif_hooks::set_tie_script(None);
    if vals.is_empty() {
        // the derived Default is an empty structure too, and one that no constructor builds
        if let Some(d) = ctx.total("default", "default", 0, 0, 0, X::default) {
            let mut od = o.clone();
            od.class = "default".into();
            sweep_tree(ctx, &d, &r, &od);
            ctx.count("default_states_swept");
        }
    }
    if let Some(t) = t {
        sweep_tree(ctx, &t, &r, &o);
        // states obtained by deserialization or by clone_from into a value that held something else must answer like the
        // one they copy (every long input, a quarter of the tiny ones; donors: Default, a longer sequence with a larger
        // maximum, a shorter one with a smaller maximum)
        let h = h64(&vals);
        if vals.len() > 24 || h % 4 == 0 {
            let tmax: u128 = if X::T::BITS == 128 { u128::MAX } else { (1u128 << X::T::BITS) - 1 };
            let maxv = vals.iter().map(|x| x.to_u128()).max().unwrap_or(0);
            let minv = vals.iter().copied().min();
            let donors: Vec<u8> = if vals.len() > 24 { vec![0, 1, 2] } else { vec![((h / 4) % 3) as u8] };
            let mut hows: Vec<(u8, u8)> = vec![(2, 0)];
            hows.extend(donors.iter().map(|&d| (3u8, d)));
            for (how, donor) in hows {
                ctx.count("derived_states_swept");
                let name: &'static str = if how == 2 { "deserialize(serialize(..))" } else { "clone_from" };
                let d = ctx.total(name, &o.class, donor as u128, 0, 0, || {
                    derived(&t, how, || {
                        if X::HUFF {
                            qwt::verif_hooks::set_tie_script(Some(vec![]));
                        }
                        let dv: Vec<X::T> = match donor {
                            0 => return X::default(),
                            1 => vals.iter().copied().chain(std::iter::repeat(X::T::from_u128((maxv.saturating_mul(4).saturating_add(7)).min(tmax))).take(300)).collect(),
                            _ => vec![minv.unwrap_or(X::T::from_u128(0)); (vals.len() / 2).max(1)],
                        };
                        let x = X::from_vec(dv);
                        qwt::verif_hooks::set_tie_script(None);
                        x
                    })
                });
                qwt::verif_hooks::set_tie_script(None);
                if let Some(d) = d {
                    let mut o2 = o.clone();
                    o2.class = sub_class(&o.class, if how == 2 { "deserialized" } else { "clone_from" });
                    o2.dense_limit = o.dense_limit.min(600);
                    sweep_tree(ctx, &d, &r, &o2);
                    if how == 3 {
                        ctx.obs("clone_from(x) == x", &o2.class, donor as u128, 0, 0, Exp::Is(true), || d == t);
                    }
                }
            }
        }
    }
}

fn factorial(n: usize) -> usize {
    (1..=n).fold(1usize, |a, b| a.saturating_mul(b))
}

/// index (factorial number system) of a permutation given as the list of picked original positions
fn lehmer(perm: &[usize]) -> usize {
    let n = perm.len();
    let mut pool: Vec<usize> = (0..n).collect();
    let mut idx = 0usize;
    for (i, &p) in perm.iter().enumerate() {
        let k = pool.iter().position(|&x| x == p).unwrap();
        idx += k * factorial(n - 1 - i);
        pool.remove(k);
    }
    idx
}

/// A bounded family of permutations of a class of size s: identity, reversal, rotations, adjacent
/// transpositions (as factorial-number-system indexes).
fn bounded_perms(s: usize) -> Vec<usize> {
    let mut out = vec![0, factorial(s).wrapping_sub(1)];
    for rot in 1..s {
        let p: Vec<usize> = (0..s).map(|i| (i + rot) % s).collect();
        out.push(lehmer(&p));
    }
    for j in 0..s.saturating_sub(1) {
        let mut p: Vec<usize> = (0..s).collect();
        p.swap(j, j + 1);
        out.push(lehmer(&p));
    }
    out.sort_unstable();
    out.dedup();
    out
}

fn run_ties<X: Tree>(ctx: &mut Ctx, me: &TCase, gen: &Gen, vm: &str, cap: usize) {
    let vals: Vec<X::T> = values(gen, vm);
    let r = RefSeq::new(&vals);
    ctx.set_ty(&X::name());
    ctx.note_input(&vals, !vals.is_empty());
    let o = opts_for::<X>(ctx, &r, 600, 40);
    // run 0: canonical order, learn the sizes of the tie classes
    qwt::verif_hooks::set_tie_script(Some(vec![]));
    let mut buf = vals.clone();
    let t0 = ctx.total("new", &o.class, 0, vals.len() as u64, 0, || X::new_(&mut buf));
    let shape = qwt::verif_hooks::take_tie_report();
    qwt::verif_hooks::set_tie_script(None);
    if t0.is_none() {
        return;
    }
    let radices: Vec<usize> = shape.iter().map(|&s| factorial(s)).collect();
    let total = radices.iter().fold(1usize, |a, &b| a.saturating_mul(b));
    let mut scripts: Vec<Vec<usize>> = Vec::new();
    if total <= cap {
        let mut cur = vec![0usize; radices.len()];
        loop {
            scripts.push(cur.clone());
            let mut j = 0;
            while j < cur.len() {
                cur[j] += 1;
                if cur[j] < radices[j] {
                    break;
                }
                cur[j] = 0;
                j += 1;
            }
            if j == cur.len() {
                break;
            }
        }
        ctx.count("tie_cases_exhaustive");
    } else {
        // stated bounded family, one class at a time plus all-reversed
        ctx.count("tie_cases_capped_bounded_family");
        scripts.push(vec![0; radices.len()]);
        scripts.push(radices.iter().map(|&r| r.wrapping_sub(1)).collect());
        for (j, &s) in shape.iter().enumerate() {
            for p in bounded_perms(s) {
                let mut sc = vec![0; radices.len()];
                sc[j] = p;
                scripts.push(sc);
            }
        }
        scripts.sort();
        scripts.dedup();
    }
    ctx.maxi("max_tie_classes", shape.len() as u64);
    ctx.maxi("max_tie_class_size", shape.iter().copied().max().unwrap_or(0) as u64);
    let mut seen: HashSet<u64> = HashSet::new();
    let saved_desc = ctx.case_desc.clone();
    let (alias, elem) = match me {
        TCase::Ties { alias, elem, .. } => (alias.clone(), elem.clone()),
        _ => unreachable!(),
    };
    for sc in scripts {
        ctx.count("tie_scripts_explored");
        qwt::verif_hooks::set_tie_script(Some(sc.clone()));
        let mut buf = vals.clone();
        // replay descriptor of exactly this construction
        ctx.case_desc = serde_json::to_value(TCase::Seq {
            alias: alias.clone(),
            elem: elem.clone(),
            gen: gen.clone(),
            vmap: vm.to_string(),
            ties: Some(sc.clone()),
            dense: 600,
            symcap: 40,
        })
        .unwrap();
        let t = ctx.total("new", &o.class, 0, vals.len() as u64, 0, || X::new_(&mut buf));
        let rep = qwt::verif_hooks::take_tie_report();
        qwt::verif_hooks::set_tie_script(None);
        if rep != shape {
            ctx.count("tie_report_shape_changed");
        }
        if let Some(t) = t {
            let ser = bincode::serialize(&t).unwrap_or_default();
            if seen.insert(h64(&ser)) {
                ctx.count("distinct_tie_outcomes_swept");
                sweep_tree(ctx, &t, &r, &o);
            }
        }
    }
    ctx.case_desc = saved_desc;
}

// ---------------------------------------------------------------------------------------------
// case enumeration

fn seq(alias: &str, elem: &str, gen: Gen, vmap: &str, dense: usize, symcap: usize) -> TCase {
    TCase::Seq { alias: alias.into(), elem: elem.into(), gen, vmap: vmap.into(), ties: None, dense, symcap }
}

const PLAIN_MAPS: [&str; 7] = ["id", "pow4", "holes", "wide", "top", "mid", "maxy"];
const HUFF_MAPS: [&str; 5] = ["hid", "hpow4", "hholes", "hbig", "hmaxy"];

fn tiny_family(out: &mut Vec<TCase>, aliases: &[&str], elems: &[&str], maps: &[&str], k: u32, l: u32) {
    for g in tiny_all(k, l) {
        for &a in aliases {
            for &e in elems {
                for &m in maps {
                    out.push(seq(a, e, g.clone(), m, 8193, 40));
                }
            }
        }
    }
}

fn boundary_family(out: &mut Vec<TCase>, aliases: &[&str], thorough: bool, huff: bool) {
    let sigmas: &[u32] = if thorough { &[1, 2, 3, 4, 5, 16, 17, 64, 255, 256] } else { &[1, 2, 4, 5, 17, 256] };
    let runs: &[usize] = if thorough { &[1, 127, 128, 255, 256, 257, 2048, 4096, 8192] } else { &[128, 257, 2048, 4096] };
    let dense = if thorough { 8193 } else { 2049 };
    let symcap = if thorough { 12 } else { 8 };
    let mut rot = 0usize;
    for &n in &boundary_lengths(thorough) {
        for &sigma in sigmas {
            let mut pats = vec![Pat::Periodic, Pat::TwoRuns, Pat::Rare(0), Pat::Rare(1), Pat::Rare(2), Pat::Blocks, Pat::DenseThenSparse];
            for &r in runs {
                if r < n {
                    pats.push(Pat::Runs(r));
                }
            }
            if sigma == 1 {
                pats = vec![Pat::Const(0)];
            }
            for p in pats {
                let g = Gen::Boundary { n, pat: p, sigma };
                // element types / value maps: u8 with the identity (sigma <= 256), u16 and u64 spread over
                // the whole value range (8 resp. 32 quad levels); big inputs rotate through the aliases
                let combos: Vec<(&str, &str)> = if huff {
                    vec![("u8", "hid"), ("u16", "hspread"), ("u64", "hspread")]
                } else {
                    vec![("u8", "id"), ("u16", "spread"), ("u64", "spread")]
                };
                for (e, m) in combos {
                    if n > 20_000 {
                        // one alias per case, rotating, and only the two cheaper element types
                        if e == "u64" {
                            continue;
                        }
                        let a = aliases[rot % aliases.len()];
                        rot += 1;
                        out.push(seq(a, e, g.clone(), m, dense, symcap));
                    } else {
                        for &a in aliases {
                            out.push(seq(a, e, g.clone(), m, dense, symcap));
                        }
                    }
                }
            }
        }
    }
}

const W6: [u32; 6] = [1, 2, 3, 5, 9, 20];
const W7: [u32; 7] = [1, 2, 3, 5, 9, 20, 100];

fn huff_family(out: &mut Vec<TCase>, aliases: &[&str], thorough: bool, binary: bool) {
    let amax = if thorough { 13 } else { 10 };
    let full_cross_upto = if thorough { 7 } else { 5 };
    let w: &[u32] = if thorough { &W7 } else { &W6 };
    let maps = ["hid", "hrev", "hgap"];
    let elems = ["u16", "u64"];
    let mut rot = 0usize;
    for a in 1..=amax {
        for ms in multisets(w, a) {
            if a <= full_cross_upto {
                for arr in 0..4u8 {
                    for &m in &maps {
                        for &al in aliases {
                            for &e in &elems {
                                out.push(seq(al, e, Gen::Huff { freqs: ms.clone(), arr }, m, 8193, 40));
                            }
                        }
                    }
                }
            } else {
                // every profile still meets every alias / arrangement / map / element type, one
                // combination per profile, rotating (the code shape depends on the profile only)
                let al = aliases[rot % aliases.len()];
                let arr = ((rot / aliases.len()) % 4) as u8;
                let m = maps[(rot / (aliases.len() * 4)) % 3];
                let e = elems[(rot / (aliases.len() * 12)) % 2];
                rot += 1;
                out.push(seq(al, e, Gen::Huff { freqs: ms.clone(), arr }, m, 8193, 40));
            }
        }
    }
    // large alphabets (uniform: complete bushy codes of 3..9 quad levels / 5..17 bits) and
    // multi-chains (deep and bushy at the same time)
    let sigmas: &[u32] = if thorough { &[17, 65, 257, 1025, 4097, 16385, 65537, 70001, 262145] } else { &[17, 65, 257, 1025, 4097, 16385, 65537, 70001] };
    for (j, &sg) in sigmas.iter().enumerate() {
        for rep in [1usize, 3] {
            if rep == 3 && sg > 20000 && !thorough {
                continue;
            }
            let al = aliases[(j + rep) % aliases.len()];
            out.push(seq(al, "u32", Gen::Boundary { n: sg as usize * rep, pat: Pat::Periodic, sigma: sg }, "hid", 1025, 12));
        }
    }
    for d in if thorough { vec![3u32, 5, 7, 9, 10, 11] } else { vec![3, 5, 7, 9] } {
        for m in [2usize, 3, 5] {
            let al = aliases[(d as usize + m) % aliases.len()];
            out.push(seq(al, "u16", Gen::Huff { freqs: chain4x(d, m), arr: 2 }, "hid", 1025, 24));
        }
    }
    // chains: deep codes
    if binary {
        let ds: Vec<u32> = if thorough { (2..=24).chain([28, 31, 32, 33]).collect() } else { (2..=20).collect() };
        for d in ds {
            for (j, &al) in aliases.iter().enumerate() {
                let big = d > 24;
                out.push(seq(al, if j % 2 == 0 { "u16" } else { "u64" }, Gen::Huff { freqs: chain2(d), arr: if big { 0 } else { 2 } }, "hid", 600, if big { 8 } else { 40 }));
            }
        }
    } else {
        // quick: every depth up to 12 for all aliases, 14 and 16 (32-bit codewords, n = 1.09 million) for every other alias
        let ds: Vec<u32> = if thorough { (2..=12).chain([13, 14, 15, 16, 17]).collect() } else { (2..=12).chain([14, 16]).collect() };
        for d in ds {
            for (j, &al) in aliases.iter().enumerate() {
                let big = d > 12;
                if big && (j % 2 == 1 || (!thorough && j != 0)) {
                    continue;
                }
                out.push(seq(al, if j % 2 == 0 { "u16" } else { "u64" }, Gen::Huff { freqs: chain4(d), arr: if big { 0 } else { 2 } }, "hid", 600, if big { 8 } else { 40 }));
            }
        }
    }
}

fn ties_family(out: &mut Vec<TCase>, combos: &[(&str, &str)], thorough: bool) {
    let amax = if thorough { 8 } else { 7 };
    let w: &[u32] = &W6;
    let mut rot = 0;
    for a in 1..=amax {
        for ms in multisets(w, a) {
            // alternate the type per profile in the quick tier, both types in the thorough tier
            let picks: Vec<(&str, &str)> = if thorough { combos.to_vec() } else { vec![combos[rot % combos.len()]] };
            rot += 1;
            for (al, e) in picks {
                out.push(TCase::Ties {
                    alias: al.into(),
                    elem: e.into(),
                    gen: Gen::Huff { freqs: ms.clone(), arr: 2 },
                    vmap: "hgap".into(),
                    cap: 5040,
                });
            }
        }
    }
}

fn enumerate(args: &Args) -> Vec<TCase> {
    let th = args.tier == "thorough";
    let mut v = Vec::new();
    match args.property.as_str() {
        "C01" => {
            if th {
                tiny_family(&mut v, &PLAIN_QUAD, &ELEMS, &PLAIN_MAPS, 4, 7);
                tiny_family(&mut v, &PLAIN_QUAD, &["u8", "u64", "u128"], &["id", "wide", "top"], 5, 6);
            } else {
                tiny_family(&mut v, &PLAIN_QUAD, &ELEMS, &PLAIN_MAPS, 3, 6);
                tiny_family(&mut v, &PLAIN_QUAD, &ELEMS, &PLAIN_MAPS, 4, 4);
            }
            boundary_family(&mut v, &PLAIN_QUAD, th, false);
        }
        "C02" => {
            let elems = ["u8", "u16", "u32", "u64", "usize", "u128"];
            tiny_family(&mut v, &HUFF_QUAD, &elems, &HUFF_MAPS, 4, if th { 7 } else { 5 });
            if th {
                tiny_family(&mut v, &HUFF_QUAD, &["u16"], &["hbig"], 5, 6);
            }
            huff_family(&mut v, &HUFF_QUAD, th, false);
            boundary_family(&mut v, &HUFF_QUAD, th, true);
            ties_family(&mut v, &[("HQWT256", "u16"), ("HQWT512Pfs", "u64")], th);
        }
        "C03" => {
            tiny_family(&mut v, &["WT"], &ELEMS, &PLAIN_MAPS, 3, if th { 7 } else { 6 });
            tiny_family(&mut v, &["WT"], &ELEMS, &PLAIN_MAPS, 4, if th { 6 } else { 4 });
            tiny_family(&mut v, &["HWT"], &ELEMS, &HUFF_MAPS, 4, if th { 7 } else { 5 });
            boundary_family(&mut v, &["WT"], th, false);
            boundary_family(&mut v, &["HWT"], th, true);
            huff_family(&mut v, &["HWT"], th, true);
            ties_family(&mut v, &[("HWT", "u16"), ("HWT", "u64")], th);
        }
        p => panic!("mc_trees does not serve {p}"),
    }
    v
}

fn main() {
    main_with::<TCase>(enumerate);
}
