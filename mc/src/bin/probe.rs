use mc::gens::*;
fn main() {
    for d in [8, 9, 10, 11, 12, 13, 14, 15, 16] {
        let f = chain4(d);
        println!("chain4({d}): syms={} n={}", f.len(), f.iter().map(|&x| x as u64).sum::<u64>());
    }
    for d in [12, 17, 20, 24] {
        let f = chain2(d);
        println!("chain2({d}): syms={} n={}", f.len(), f.iter().map(|&x| x as u64).sum::<u64>());
    }
}
