use mc::gens::*;
use minimum_redundancy::{BitsPerFragment, Coding};
use std::collections::BTreeMap;
fn depth(f: &[u32], quad: bool) -> u32 {
    let m: BTreeMap<usize, usize> = f.iter().enumerate().map(|(i, &x)| (i, x as usize)).collect();
    let l = Coding::from_frequencies(BitsPerFragment(if quad { 2 } else { 1 }), m).code_lengths();
    *l.values().max().unwrap()
}
fn main() {
    for d in 2..=18 {
        let f = chain4(d);
        println!("chain4({d}): syms={} n={} depth={}", f.len(), f.iter().map(|&x| x as u64).sum::<u64>(), depth(&f, true));
    }
    for d in [2, 3, 5, 10, 20, 24, 31, 32, 33] {
        let f = chain2(d);
        println!("chain2({d}): syms={} n={} depth={}", f.len(), f.iter().map(|&x| x as u64).sum::<u64>(), depth(&f, false));
    }
}
