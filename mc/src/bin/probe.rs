fn main() {
    let t = qwt::HQWT256::<u8>::from(vec![1u8, 2, 3, 1, 1, 1, 7, 7]);
    match serde_json::to_value(&t) {
        Ok(j) => println!("{}", j.get("lens").map(|x| x.to_string()).unwrap_or("no lens".into())),
        Err(e) => println!("ERR {e}"),
    }
    let t = qwt::HWT::<u8>::from(vec![1u8, 2, 3, 1, 1, 1, 7, 7]);
    match serde_json::to_value(&t) {
        Ok(j) => println!("{}", j.get("lens").map(|x| x.to_string()).unwrap_or("no lens".into())),
        Err(e) => println!("ERR {e}"),
    }
}
