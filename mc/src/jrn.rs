//! Crash journal: the child process records (case index, method, arguments) in a static
//! buffer before every call into the library; handlers for SIGSEGV/SIGBUS/SIGILL/SIGFPE/SIGABRT
//! and SIGALRM (per-case watchdog) write that record to fd 2 with async-signal-safe code and
//! `_exit`. The parent turns the record into a violation of the property under check.
use std::sync::atomic::{AtomicU64, AtomicUsize, Ordering::Relaxed};

static CASE: AtomicU64 = AtomicU64::new(u64::MAX);
static METHOD_PTR: AtomicUsize = AtomicUsize::new(0);
static METHOD_LEN: AtomicUsize = AtomicUsize::new(0);
static TY_PTR: AtomicUsize = AtomicUsize::new(0);
static TY_LEN: AtomicUsize = AtomicUsize::new(0);
static A0: AtomicU64 = AtomicU64::new(0);
static A0H: AtomicU64 = AtomicU64::new(0);
static A1: AtomicU64 = AtomicU64::new(0);
static A2: AtomicU64 = AtomicU64::new(0);

#[inline(always)]
pub fn set_case(idx: u64) {
    CASE.store(idx, Relaxed);
    set_query("<construction>", 0, 0, 0);
}

#[inline(always)]
pub fn set_ty(ty: &'static str) {
    TY_PTR.store(ty.as_ptr() as usize, Relaxed);
    TY_LEN.store(ty.len(), Relaxed);
}

/// `a0` may be a 128-bit symbol; a1/a2 are positions / indices.
#[inline(always)]
pub fn set_query(method: &'static str, a0: u128, a1: u64, a2: u64) {
    METHOD_PTR.store(method.as_ptr() as usize, Relaxed);
    METHOD_LEN.store(method.len(), Relaxed);
    A0.store(a0 as u64, Relaxed);
    A0H.store((a0 >> 64) as u64, Relaxed);
    A1.store(a1, Relaxed);
    A2.store(a2, Relaxed);
}

fn put(buf: &mut [u8], pos: &mut usize, s: &[u8]) {
    for &b in s {
        if *pos < buf.len() {
            buf[*pos] = b;
            *pos += 1;
        }
    }
}

fn put_u64(buf: &mut [u8], pos: &mut usize, mut v: u64) {
    let mut tmp = [0u8; 20];
    let mut n = 0;
    if v == 0 {
        tmp[0] = b'0';
        n = 1;
    }
    while v > 0 {
        tmp[n] = b'0' + (v % 10) as u8;
        v /= 10;
        n += 1;
    }
    while n > 0 {
        n -= 1;
        put(buf, pos, &tmp[n..n + 1]);
    }
}

extern "C" fn on_signal(sig: libc::c_int) {
    let mut buf = [0u8; 512];
    let mut pos = 0usize;
    put(&mut buf, &mut pos, b"\nCRASH sig=");
    put_u64(&mut buf, &mut pos, sig as u64);
    put(&mut buf, &mut pos, b" case=");
    put_u64(&mut buf, &mut pos, CASE.load(Relaxed));
    put(&mut buf, &mut pos, b" a0=");
    put_u64(&mut buf, &mut pos, A0.load(Relaxed));
    put(&mut buf, &mut pos, b" a0h=");
    put_u64(&mut buf, &mut pos, A0H.load(Relaxed));
    put(&mut buf, &mut pos, b" a1=");
    put_u64(&mut buf, &mut pos, A1.load(Relaxed));
    put(&mut buf, &mut pos, b" a2=");
    put_u64(&mut buf, &mut pos, A2.load(Relaxed));
    put(&mut buf, &mut pos, b" ty=");
    let (p, l) = (TY_PTR.load(Relaxed), TY_LEN.load(Relaxed));
    if p != 0 {
        // SAFETY: points to a 'static str
        put(&mut buf, &mut pos, unsafe { std::slice::from_raw_parts(p as *const u8, l) });
    }
    put(&mut buf, &mut pos, b" method=");
    let (p, l) = (METHOD_PTR.load(Relaxed), METHOD_LEN.load(Relaxed));
    if p != 0 {
        put(&mut buf, &mut pos, unsafe { std::slice::from_raw_parts(p as *const u8, l) });
    }
    put(&mut buf, &mut pos, b"\n");
    unsafe {
        libc::write(2, buf.as_ptr() as *const libc::c_void, pos);
        libc::_exit(70 + (sig & 31));
    }
}

/// Installs the handlers (on an alternate stack, so that stack overflow is reported too).
pub fn install() {
    unsafe {
        let sz = 1 << 16;
        let stack = libc::mmap(
            std::ptr::null_mut(),
            sz,
            libc::PROT_READ | libc::PROT_WRITE,
            libc::MAP_PRIVATE | libc::MAP_ANONYMOUS,
            -1,
            0,
        );
        let ss = libc::stack_t { ss_sp: stack, ss_flags: 0, ss_size: sz };
        libc::sigaltstack(&ss, std::ptr::null_mut());
        for sig in [libc::SIGSEGV, libc::SIGBUS, libc::SIGILL, libc::SIGFPE, libc::SIGABRT, libc::SIGALRM] {
            let mut sa: libc::sigaction = std::mem::zeroed();
            sa.sa_sigaction = on_signal as *const () as usize;
            sa.sa_flags = libc::SA_ONSTACK;
            libc::sigemptyset(&mut sa.sa_mask);
            libc::sigaction(sig, &sa, std::ptr::null_mut());
        }
    }
}

/// Arms the per-case watchdog.
pub fn alarm(secs: u32) {
    unsafe {
        libc::alarm(secs);
    }
}

/// Parsed form of a CRASH line.
#[derive(Debug, Clone)]
pub struct Crash {
    pub sig: i32,
    pub case: u64,
    pub a0: u128,
    pub a1: u64,
    pub a2: u64,
    pub ty: String,
    pub method: String,
}

pub fn parse_crash(stderr: &str) -> Option<Crash> {
    let line = stderr.lines().rev().find(|l| l.starts_with("CRASH "))?;
    let mut c = Crash { sig: 0, case: u64::MAX, a0: 0, a1: 0, a2: 0, ty: String::new(), method: String::new() };
    let mut a0l = 0u64;
    let mut a0h = 0u64;
    // ty and method come last and may contain spaces only in method (they do not)
    for tok in line.split(' ').skip(1) {
        let (k, v) = tok.split_once('=')?;
        match k {
            "sig" => c.sig = v.parse().ok()?,
            "case" => c.case = v.parse().ok()?,
            "a0" => a0l = v.parse().ok()?,
            "a0h" => a0h = v.parse().ok()?,
            "a1" => c.a1 = v.parse().ok()?,
            "a2" => c.a2 = v.parse().ok()?,
            "ty" => c.ty = v.to_string(),
            "method" => c.method = v.to_string(),
            _ => {}
        }
    }
    c.a0 = ((a0h as u128) << 64) | a0l as u128;
    Some(c)
}

pub fn sig_name(sig: i32) -> &'static str {
    match sig {
        libc::SIGSEGV => "SIGSEGV",
        libc::SIGBUS => "SIGBUS",
        libc::SIGILL => "SIGILL",
        libc::SIGFPE => "SIGFPE",
        libc::SIGABRT => "SIGABRT",
        libc::SIGALRM => "TIMEOUT",
        _ => "SIGNAL",
    }
}
