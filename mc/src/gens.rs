//! Deterministic generator families. Every family is an enumeration; nothing is sampled.
use serde::{Deserialize, Serialize};

/// Abstract input of a sequence structure: symbols are small ids, turned into element values by a
/// value map (`vmap`) that depends on the element width.
#[derive(Debug, Clone, Serialize, Deserialize, PartialEq)]
pub enum Gen {
    /// the idx-th sequence (base-k digits, most significant first) of length len over k symbols
    Tiny { k: u32, len: u32, idx: u64 },
    /// structured long input
    Boundary { n: usize, pat: Pat, sigma: u32 },
    /// frequency profile realised as a sequence; freqs[i] occurrences of abstract symbol i
    Huff { freqs: Vec<u32>, arr: u8 },
    /// literal abstract sequence
    Lit { seq: Vec<u32> },
    /// "coarse tiny": the idx-th sequence of `len` blocks over k fills (base-k digits, as Tiny); block j consists of
    /// `b` copies of its fill symbol, followed by `extra` more copies of symbol 0. Exhaustive at the granularity of
    /// the layout (blocks of 256 / 512 symbols, 8 per superblock) instead of single symbols.
    CoarseTiny { k: u32, len: u32, idx: u64, b: usize, extra: usize },
}

#[derive(Debug, Clone, Copy, Serialize, Deserialize, PartialEq)]
pub enum Pat {
    Const(u32),
    Periodic,
    TwoRuns,
    Runs(usize),
    /// one different symbol at position n*num/2 (num in 0..=2; 2 means n-1) in a constant background
    Rare(u8),
    /// first half periodic over all symbols, second half constant
    DenseThenSparse,
    /// symbol i/ (n/sigma): sigma long runs of equal length
    Blocks,
    /// first two thirds constant (symbol 0), last third periodic over 1..sigma
    ConstThenPeriodic,
    /// as ConstThenPeriodic, but the very last element is the heavy symbol 0 again (its last
    /// occurrence is isolated from the bulk)
    ConstPeriodicOne,
}

pub fn tiny_count(k: u32, len: u32) -> u64 {
    (k as u64).pow(len)
}

impl Gen {
    /// abstract symbol ids
    pub fn abstract_seq(&self) -> Vec<u32> {
        match self {
            Gen::Tiny { k, len, idx } => {
                let mut v = vec![0u32; *len as usize];
                let mut x = *idx;
                for j in (0..*len as usize).rev() {
                    v[j] = (x % *k as u64) as u32;
                    x /= *k as u64;
                }
                v
            }
            Gen::Boundary { n, pat, sigma } => {
                let n = *n;
                let s = (*sigma).max(1);
                (0..n)
                    .map(|i| match pat {
                        Pat::Const(c) => *c % s,
                        Pat::Periodic => (i as u32) % s,
                        Pat::TwoRuns => {
                            if i < n / 2 {
                                0
                            } else {
                                s - 1
                            }
                        }
                        Pat::Runs(r) => ((i / r) as u32) % s,
                        Pat::Rare(num) => {
                            let p = match num {
                                0 => 0,
                                1 => n / 2,
                                _ => n - 1,
                            };
                            if i == p {
                                s - 1
                            } else {
                                0
                            }
                        }
                        Pat::DenseThenSparse => {
                            if i < n / 2 {
                                (i as u32) % s
                            } else {
                                s - 1
                            }
                        }
                        Pat::Blocks => {
                            let b = (n + s as usize - 1) / s as usize;
                            (i / b.max(1)) as u32
                        }
                        Pat::ConstPeriodicOne => {
                            if i < 2 * n / 3 || s == 1 || i == n - 1 {
                                0
                            } else {
                                1 + (i as u32) % (s - 1)
                            }
                        }
                        Pat::ConstThenPeriodic => {
                            if i < 2 * n / 3 || s == 1 {
                                0
                            } else {
                                1 + (i as u32) % (s - 1)
                            }
                        }
                    })
                    .collect()
            }
            Gen::Huff { freqs, arr } => {
                let mut v = Vec::new();
                match arr {
                    0 => {
                        for (s, &f) in freqs.iter().enumerate() {
                            v.extend(std::iter::repeat(s as u32).take(f as usize));
                        }
                    }
                    1 => {
                        for (s, &f) in freqs.iter().enumerate().rev() {
                            v.extend(std::iter::repeat(s as u32).take(f as usize));
                        }
                    }
                    _ => {
                        // round robin (2) / reversed round robin (3)
                        let mut left: Vec<u32> = freqs.clone();
                        loop {
                            let mut any = false;
                            let order: Vec<usize> =
                                if *arr == 2 { (0..left.len()).collect() } else { (0..left.len()).rev().collect() };
                            for s in order {
                                if left[s] > 0 {
                                    left[s] -= 1;
                                    v.push(s as u32);
                                    any = true;
                                }
                            }
                            if !any {
                                break;
                            }
                        }
                    }
                }
                v
            }
            Gen::Lit { seq } => seq.clone(),
            Gen::CoarseTiny { k, len, idx, b, extra } => {
                let fills = Gen::Tiny { k: *k, len: *len, idx: *idx }.abstract_seq();
                let mut v = Vec::with_capacity(fills.len() * b + extra);
                for f in fills {
                    v.extend(std::iter::repeat(f).take(*b));
                }
                v.extend(std::iter::repeat(0).take(*extra));
                v
            }
        }
    }

    pub fn approx_len(&self) -> u64 {
        match self {
            Gen::Tiny { len, .. } => *len as u64,
            Gen::Boundary { n, .. } => *n as u64,
            Gen::Huff { freqs, .. } => freqs.iter().map(|&f| f as u64).sum(),
            Gen::Lit { seq } => seq.len() as u64,
            Gen::CoarseTiny { len, b, extra, .. } => (*len as usize * b + extra) as u64,
        }
    }
}

/// All CoarseTiny generators with k fills, 1..=max_len blocks of b symbols and `extra` trailing symbols.
pub fn coarse_all(k: u32, max_len: u32, b: usize, extra: usize) -> Vec<Gen> {
    let mut v = Vec::new();
    for len in 1..=max_len {
        for idx in 0..tiny_count(k, len) {
            v.push(Gen::CoarseTiny { k, len, idx, b, extra });
        }
    }
    v
}

/// All Tiny generators with k symbols and lengths 0..=max_len (Σ k^len of them).
pub fn tiny_all(k: u32, max_len: u32) -> Vec<Gen> {
    let mut v = Vec::new();
    for len in 0..=max_len {
        for idx in 0..tiny_count(k, len) {
            v.push(Gen::Tiny { k, len, idx });
        }
    }
    v
}

/// Value maps: abstract symbol id -> element value for an element type of `w` bits.
/// Names: id, pow4, holes, wide, top (general); hid, hpow4, hholes, hbig (Huffman: capped at 65535,
/// because those trees keep a table indexed by symbol value); spread (large alphabets).
pub fn vmap(name: &str, w: u32, sym: u32, sigma_hint: u32) -> u128 {
    let max: u128 = if w == 128 { u128::MAX } else { (1u128 << w) - 1 };
    let s = sym as usize;
    let pick = |t: [u128; 5]| -> u128 { t[s.min(4)].min(max) };
    match name {
        "id" | "hid" => (sym as u128).min(max),
        "pow4" | "hpow4" => pick([0, 3, 4, 15, 16]),
        "holes" | "hholes" => pick([1, 5, 17, 64, 255]),
        "wide" => pick([0, 1u128 << (w / 2), 1u128 << (w - 1), max - 1, max]),
        "top" => pick([max - 4, max - 3, max - 2, max - 1, max]),
        "mid" => pick([1, (1u128 << (w / 2)) - 1, (1u128 << (w / 2)) + 1, (1u128 << (w - 2)) + 5, (1u128 << (w - 1)) + 3]),
        "hbig" => pick([0, 7, 300, 4096, 65535]).min(max),
        // the type's maximum among the first symbols (so that even 3-symbol sequences contain it)
        "maxy" => pick([max, 0, max - 1, 1, 1u128 << (w / 2)]),
        "hmaxy" => pick([max.min(65535), 0, max.min(65535) - 1, 1, 255]),
        // one symbol (the first / the last of the profile) far above 2^16, the others small: the table index of a frequent
        // symbol needs 17 / 20 bits
        "hbigfirst17" => if sym == 0 { (1u128 << 17) + 5 } else { sym as u128 }.min(max),
        "hbiglast17" => if sym + 1 == sigma_hint { (1u128 << 17) + 5 } else { sym as u128 }.min(max),
        "hbigfirst20" => if sym == 0 { (1u128 << 20) + 1 } else { sym as u128 }.min(max),
        "hbiglast20" => if sym + 1 == sigma_hint { (1u128 << 20) + 1 } else { sym as u128 }.min(max),
        // values that are each other's multiples of 4 (a tree over 4x has the digits of x one level further up)
        "quad4" => pick([0, 1, 4, 16, 5]),
        // one small symbol and otherwise symbols that are large multiples of 2^16 (a key that packs symbol and count)
        "hscale16" => if sym == 0 { 5 } else { ((45 + sym as u128) << 16).min(max) },
        "hrev" => (sigma_hint.saturating_sub(1).saturating_sub(sym) as u128).min(max),
        "hgap" => ((sym as u128) * 3 + 1).min(max),
        // spread sigma symbols evenly over the value range of the type (keeps order)
        "spread" => {
            if sigma_hint <= 1 {
                max
            } else {
                (max / (sigma_hint as u128 - 1)) * sym as u128
            }
        }
        // spread over 16 bits (fits every Huffman table)
        "hspread" => {
            let m = max.min(65535);
            if sigma_hint <= 1 {
                m
            } else {
                (m / (sigma_hint as u128 - 1)) * sym as u128
            }
        }
        _ => panic!("unknown value map {name}"),
    }
}

/// Lengths that straddle every layout boundary of the quad / bit structures.
pub fn boundary_lengths(thorough: bool) -> Vec<usize> {
    let mut v = vec![
        1, 2, 127, 128, 129, 255, 256, 257, 511, 512, 513, 1023, 1024, 1025, 2047, 2048, 2049, 4095, 4096, 4097, 8191,
        8192, 8193,
    ];
    if thorough {
        v.extend([16383, 16384, 16385, 32767, 32768, 32769, 65535, 65536, 65537, 98305, 262145, (1 << 20) + 1]);
    }
    v
}

/// Multisets (non-decreasing tuples) of size a over the weight set w.
pub fn multisets(w: &[u32], a: usize) -> Vec<Vec<u32>> {
    fn rec(w: &[u32], a: usize, from: usize, cur: &mut Vec<u32>, out: &mut Vec<Vec<u32>>) {
        if cur.len() == a {
            out.push(cur.clone());
            return;
        }
        for i in from..w.len() {
            cur.push(w[i]);
            rec(w, a, i, cur, out);
            cur.pop();
        }
    }
    let mut out = Vec::new();
    rec(w, a, 0, &mut Vec::new(), &mut out);
    out
}

/// Frequency profile that forces a 4-ary Huffman code of (about) depth d: four leaves of weight 1
/// at the bottom and three leaves per level whose weight equals the weight of the subtree two
/// levels below (so each merge takes the running subtree plus exactly three leaves).
pub fn chain4(d: u32) -> Vec<u32> {
    // level 0: four leaves of weight 1 (node_0 = 4); level j >= 1: three leaves of weight g_j with
    // g_1 = 1 and g_{j+1} = node_{j-1} + 1 (strict, so that the running subtree - not a leaf of the next
    // group - is the fourth item of every merge); node_j = node_{j-1} + 3 g_j
    let mut freqs: Vec<u64> = vec![1, 1, 1, 1];
    let mut nodes: Vec<u64> = vec![4];
    let mut g: u64 = 1;
    for j in 1..d {
        if j >= 2 {
            g = nodes[(j - 2) as usize] + 1;
        }
        freqs.extend([g, g, g]);
        let prev = *nodes.last().unwrap();
        nodes.push(prev + 3 * g);
    }
    freqs.iter().map(|&f| f.min(u32::MAX as u64) as u32).collect()
}

/// Geometric profile with ratio 4: one symbol of weight 1 and three symbols of weight 4^j for j < d
/// (n = 4^d): the 4-ary Huffman code has depth d and H0 + 2 is far below 2*ceil(log4(#symbols)).
pub fn geom4(d: u32) -> Vec<u32> {
    let mut v = vec![1u32];
    for j in 0..d {
        let w = 4u32.pow(j);
        v.extend([w, w, w]);
    }
    v
}

/// `m` interleaved copies of the chain4(d) profile: a deep code whose upper levels hold several
/// internal nodes (deep *and* bushy), unlike the single chain.
pub fn chain4x(d: u32, m: usize) -> Vec<u32> {
    let mut v = Vec::new();
    for f in chain4(d) {
        for _ in 0..m {
            v.push(f);
        }
    }
    v
}

/// Fibonacci profile forcing a binary Huffman code of depth d (d+1 symbols).
pub fn chain2(d: u32) -> Vec<u32> {
    let mut f: Vec<u64> = vec![1, 1];
    while (f.len() as u32) < d + 1 {
        let n = f.len();
        f.push(f[n - 1] + f[n - 2]);
    }
    f.truncate((d + 1) as usize);
    f.iter().map(|&x| x.min(u32::MAX as u64) as u32).collect()
}

/// DArray group shapes: D = dense (1024 ones in < 65536 bits), T0/T1/T2 = span exactly
/// 65535 / 65536 / 65537 bits, S = sparse.
#[derive(Debug, Clone, Copy, Serialize, Deserialize, PartialEq)]
pub enum Grp {
    D,
    D1,
    T0,
    T1,
    T2,
    S,
    /// span 65535 (dense): all elements but the last 32 packed at the start, the last 32 in the final 33 bits (one hole
    /// 9 bits into that run): the last subblock head sits at offset 65535 - 32
    T1E,
    /// span 65535 (dense), all elements but the last packed at the start, the last one alone at offset 65535
    T1S,
}

/// Positions of the ones for a sequence of full groups followed by `partial` more ones
/// (spaced as the group kind `pk`), starting at bit `lead`.
pub fn group_positions(groups: &[Grp], partial: usize, pk: Grp, lead: usize) -> Vec<usize> {
    let mut pos = Vec::new();
    let mut cur = lead;
    let emit = |kind: Grp, count: usize, cur: &mut usize, pos: &mut Vec<usize>| {
        if count == 0 {
            return;
        }
        // span = last - first of the group (full or partial): the dense/sparse decision of DArray
        // looks at exactly this quantity
        let c1 = count - 1;
        let span = match kind {
            Grp::D => c1,                      // consecutive ones
            Grp::D1 => c1 * 40,                // dense but spread over many words
            Grp::T0 => 65534.max(c1),          // < 65536: dense
            Grp::T1 => 65535.max(c1),          // < 65536: the largest dense span
            Grp::T2 => 65536.max(c1),          // = 65536: the smallest sparse span
            Grp::S => (c1 * 70).max(70_000),   // sparse
            Grp::T1E | Grp::T1S => 65535.max(c1),
        };
        match kind {
            Grp::T1E | Grp::T1S if count >= 3 => {
                let span = 65535usize.max(c1 + 1);
                // how many elements sit in the run at the end
                let at_end = if kind == Grp::T1S { 1 } else { 32.min(count - 1) };
                let at_start = count - at_end;
                for i in 0..at_start {
                    pos.push(*cur + i);
                }
                // the end run occupies at_end + 1 bits (one hole) when it has more than one element
                let hole = if at_end > 9 { Some(8usize) } else { None };
                let width = at_end + hole.is_some() as usize;
                let mut p = span + 1 - width;
                for j in 0..at_end {
                    if hole == Some(j) {
                        p += 1;
                    }
                    pos.push(*cur + p);
                    p += 1;
                }
            }
            _ => {
                let span = if matches!(kind, Grp::T1E | Grp::T1S) { 65535usize.max(c1) } else { span };
                for i in 0..count {
                    let off = if count == 1 { 0 } else { (span as u128 * i as u128 / c1 as u128) as usize };
                    pos.push(*cur + off);
                }
            }
        }
        *cur = pos.last().unwrap() + 1 + (kind as usize % 3);
    };
    for &g in groups {
        emit(g, 1024, &mut cur, &mut pos);
    }
    emit(pk, partial, &mut cur, &mut pos);
    // strictly increasing by construction? evenly spread offsets of consecutive i differ by >= 1
    // because span >= 1023; assert to be safe
    debug_assert!(pos.windows(2).all(|w| w[0] < w[1]));
    pos
}

/// All sequences of length 1..=g over `kinds`.
pub fn group_shapes(kinds: &[Grp], g: usize) -> Vec<Vec<Grp>> {
    let mut out: Vec<Vec<Grp>> = vec![];
    let mut level: Vec<Vec<Grp>> = vec![vec![]];
    for _ in 0..g {
        let mut next = Vec::new();
        for p in &level {
            for &k in kinds {
                let mut q = p.clone();
                q.push(k);
                next.push(q);
            }
        }
        out.extend(next.iter().cloned());
        level = next;
    }
    out
}

/// Structured bit vectors around the 64/512/4096/32768 boundaries.
#[derive(Debug, Clone, Serialize, Deserialize, PartialEq)]
pub enum BitGen {
    /// all bit vectors of a length: idx is the bit pattern (bit j of idx = bit j)
    Tiny { len: u32, idx: u64 },
    /// n bits following a density pattern
    Pat { n: usize, pat: BitPat },
    /// ones at explicit positions, length = last+1+tail
    Pos { pos: Vec<usize>, tail: usize },
    /// k bits equal to `first`, then n-k bits equal to !first: places the m-th one / zero at a chosen distance from the end
    PrefixRun { n: usize, k: usize, first: bool },
    /// "coarse tiny" bit vectors: unit j (a 64-bit word if `unit` = 64, a 512-bit line if 512) is filled by the j-th base-4
    /// digit of idx: 0 zeros, 1 ones, 2 only its first bit set, 3 only its last bit set; then `extra` zero bits.
    Coarse { unit: usize, len: u32, idx: u64, extra: usize },
    /// DArray groups
    Groups { groups: Vec<Grp>, partial: usize, pk: Grp, lead: usize, tail: usize, complement: bool },
}

#[derive(Debug, Clone, Copy, Serialize, Deserialize, PartialEq)]
pub enum BitPat {
    Zeros,
    Ones,
    Alt,
    /// runs of r equal bits, starting with 1
    Runs(usize),
    /// one 1 every p bits (at positions ≡ p-1 mod p)
    OnePer(usize),
    /// one 0 every p bits
    ZeroPer(usize),
    /// first half ones, second half zeros
    HalfOnes,
    /// first half zeros, second half ones
    HalfZeros,
    /// single one at n*num/2 (2 -> n-1)
    SingleOne(u8),
    /// single zero
    SingleZero(u8),
}

impl BitGen {
    pub fn bits(&self) -> Vec<bool> {
        match self {
            BitGen::Tiny { len, idx } => (0..*len).map(|j| (idx >> j) & 1 == 1).collect(),
            BitGen::Pat { n, pat } => {
                let n = *n;
                let at = |num: u8| match num {
                    0 => 0,
                    1 => n / 2,
                    _ => n.saturating_sub(1),
                };
                (0..n)
                    .map(|i| match pat {
                        BitPat::Zeros => false,
                        BitPat::Ones => true,
                        BitPat::Alt => i % 2 == 0,
                        BitPat::Runs(r) => (i / r) % 2 == 0,
                        BitPat::OnePer(p) => i % p == p - 1,
                        BitPat::ZeroPer(p) => i % p != p - 1,
                        BitPat::HalfOnes => i < n / 2,
                        BitPat::HalfZeros => i >= n / 2,
                        BitPat::SingleOne(num) => i == at(*num),
                        BitPat::SingleZero(num) => i != at(*num),
                    })
                    .collect()
            }
            BitGen::PrefixRun { n, k, first } => (0..*n).map(|i| (i < *k) == *first).collect(),
            BitGen::Coarse { unit, len, idx, extra } => {
                let mut v = Vec::with_capacity(*len as usize * unit + extra);
                let mut x = *idx;
                for _ in 0..*len {
                    let d = x % 4;
                    x /= 4;
                    for i in 0..*unit {
                        v.push(match d {
                            0 => false,
                            1 => true,
                            2 => i == 0,
                            _ => i + 1 == *unit,
                        });
                    }
                }
                v.extend(std::iter::repeat(false).take(*extra));
                v
            }
            BitGen::Pos { pos, tail } => {
                let n = pos.last().map_or(0, |l| l + 1) + tail;
                let mut v = vec![false; n];
                for &p in pos {
                    v[p] = true;
                }
                v
            }
            BitGen::Groups { groups, partial, pk, lead, tail, complement } => {
                let pos = group_positions(groups, *partial, *pk, *lead);
                let n = pos.last().map_or(0, |l| l + 1) + tail;
                let mut v = vec![*complement; n];
                for &p in &pos {
                    v[p] = !*complement;
                }
                v
            }
        }
    }
    pub fn approx_len(&self) -> u64 {
        match self {
            BitGen::Tiny { len, .. } => *len as u64,
            BitGen::Pat { n, .. } => *n as u64,
            BitGen::PrefixRun { n, .. } => *n as u64,
            BitGen::Coarse { unit, len, extra, .. } => (*len as usize * unit + extra) as u64,
            BitGen::Pos { pos, tail } => (pos.last().copied().unwrap_or(0) + tail) as u64,
            BitGen::Groups { groups, partial, .. } => (groups.len() as u64 * 72000) + *partial as u64 * 70,
        }
    }
}

/// All Coarse bit generators with 1..=max_len units.
pub fn coarse_bits_all(unit: usize, max_len: u32, extra: usize) -> Vec<BitGen> {
    let mut v = Vec::new();
    for len in 1..=max_len {
        for idx in 0..(1u64 << (2 * len)) {
            v.push(BitGen::Coarse { unit, len, idx, extra });
        }
    }
    v
}

/// Position lists whose consecutive gaps are all combinations of up to `k` values around the 16-bit boundary that DArray's
/// dense / sparse decision and its u16 offsets live on (1, 65534, 65535, 65536, 70000), from three start offsets.
pub fn boundary_gap_lists(k: usize) -> Vec<BitGen> {
    let gaps = [1usize, 65534, 65535, 65536, 70000];
    let mut out = Vec::new();
    for start in [0usize, 5, 65535] {
        let mut level: Vec<Vec<usize>> = vec![vec![start]];
        for _ in 0..k {
            let mut next = Vec::new();
            for p in &level {
                for g in gaps {
                    let mut q = p.clone();
                    q.push(p[p.len() - 1] + g);
                    next.push(q);
                }
            }
            for q in &next {
                out.push(BitGen::Pos { pos: q.clone(), tail: 0 });
                out.push(BitGen::Pos { pos: q.clone(), tail: 3 });
            }
            level = next;
        }
    }
    out
}

pub fn tinybits_all(max_len: u32) -> Vec<BitGen> {
    let mut v = Vec::new();
    for len in 0..=max_len {
        for idx in 0..(1u64 << len) {
            v.push(BitGen::Tiny { len, idx });
        }
    }
    v
}

pub fn bit_lengths(thorough: bool) -> Vec<usize> {
    let mut v = vec![
        1, 63, 64, 65, 127, 128, 129, 511, 512, 513, 1023, 1024, 1025, 2047, 2048, 2049, 4095, 4096, 4097, 8191, 8192,
        8193, 16385, 32767, 32768, 32769, 65537,
    ];
    if thorough {
        v.extend([98305, 131071, 131072, 131073, 262145, 524289, (1 << 20) + 1, (1 << 21) + 1]);
    }
    v
}

pub fn bit_patterns() -> Vec<BitPat> {
    let mut v = vec![BitPat::Zeros, BitPat::Ones, BitPat::Alt, BitPat::HalfOnes, BitPat::HalfZeros];
    for r in [3usize, 64, 512, 1000, 4096] {
        v.push(BitPat::Runs(r));
    }
    for p in [2usize, 7, 63, 64, 65, 1023, 1024, 1025, 8191, 8192, 8193] {
        v.push(BitPat::OnePer(p));
        v.push(BitPat::ZeroPer(p));
    }
    for n in 0..3u8 {
        v.push(BitPat::SingleOne(n));
        v.push(BitPat::SingleZero(n));
    }
    v
}
