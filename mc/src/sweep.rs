//! Query sweeps of the wavelet trees against `RefSeq` (oracle rules of DESIGN.md §3.3).
use crate::refm::{bitlen, RefSeq};
use crate::run::{Ctx, Exp};
use crate::trees::{Elem, Tree};

pub const UMAX: usize = usize::MAX;

/// Arguments whose product with 2 / 4 / 256 / 512 (bits per symbol, symbols per line, bits per line) wraps around to a
/// valid position: a bound check written in the scaled unit lets them through.
pub fn wrap_args(n: usize) -> [usize; 5] {
    let d = n.saturating_sub(1);
    [1 << 63, (1 << 63) + d, (1 << 62) + d, (1 << 56) + d, (1 << 55) + d]
}

/// Positions to query for a sequence of length n.
pub fn positions(n: usize, dense_limit: usize) -> Vec<usize> {
    let mut v: Vec<usize> = Vec::new();
    if n <= dense_limit {
        v.extend(0..=n + 1);
    } else {
        v.extend([0, 1, 2]);
        let step = if n > 70_000 { 2048 } else { 256 };
        let mut j = step;
        while j <= n + 1 {
            v.extend([j - 1, j, j + 1]);
            j += step;
        }
        // a few positions inside blocks
        for f in [3usize, 5, 7] {
            v.push(n / f);
            v.push(n - n / f);
        }
        v.extend([n.saturating_sub(1), n, n + 1]);
    }
    v.push(UMAX - 1);
    v.push(UMAX);
    v.extend(wrap_args(n));
    v.sort_unstable();
    v.dedup();
    v
}

/// Occurrence indices to query for a symbol with `count` occurrences.
pub fn occ_indices(count: usize, dense_limit: usize) -> Vec<usize> {
    let mut v: Vec<usize> = Vec::new();
    if count <= dense_limit {
        v.extend(0..=count + 1);
    } else {
        v.extend([0, 1, 2]);
        let mut j = 1024;
        while j <= count + 1 {
            v.extend([j - 1, j, j + 1]);
            j += if count > 70_000 { 8192 } else { 1024 };
        }
        v.extend([count / 2, count / 3, count.saturating_sub(2), count.saturating_sub(1), count, count + 1]);
    }
    v.push(UMAX - 1);
    v.push(UMAX);
    v.extend(wrap_args(count));
    v.sort_unstable();
    v.dedup();
    v
}

fn thin<T: Copy>(v: &[T], cap: usize) -> Vec<T> {
    if v.len() <= cap {
        return v.to_vec();
    }
    let mut out = Vec::new();
    let third = cap / 3;
    out.extend_from_slice(&v[..third]);
    let mid = cap - 2 * third;
    for j in 0..mid {
        out.push(v[third + (v.len() - 2 * third) * j / mid]);
    }
    out.extend_from_slice(&v[v.len() - third..]);
    out
}

/// Symbols to query: occurring ones, absent ones below the maximum, and values beyond it.
pub fn symbols<T: Elem>(r: &RefSeq<T>, cap: usize) -> Vec<T> {
    let tmax: u128 = if T::BITS == 128 { u128::MAX } else { (1u128 << T::BITS) - 1 };
    let occurring: Vec<u128> = r.symbols().iter().map(|s| s.to_u128()).collect();
    let m = occurring.last().copied().unwrap_or(0);
    let mut v: Vec<u128> = thin(&occurring, cap);
    let mut absent: Vec<u128> = Vec::new();
    if m <= 300 {
        for x in 0..=m {
            if occurring.binary_search(&x).is_err() {
                absent.push(x);
            }
        }
    } else {
        for &s in &thin(&occurring, cap) {
            for x in [s.wrapping_sub(1), s.saturating_add(1)] {
                if x <= tmax && occurring.binary_search(&x).is_err() {
                    absent.push(x);
                }
            }
        }
        absent.push(0);
        absent.push(m / 2);
        absent.retain(|x| occurring.binary_search(x).is_err());
    }
    absent.sort_unstable();
    absent.dedup();
    v.extend(thin(&absent, cap));
    for x in [m.saturating_add(1), m.saturating_add(2), m.saturating_add(3), m.saturating_mul(2), m.saturating_mul(4).saturating_add(1), 1u128 << 32, (1u128 << 32).saturating_add(m), tmax - 1, tmax] {
        v.push(x.min(tmax));
    }
    if T::BITS == 128 {
        for &s in thin(&occurring, 3).iter() {
            v.push(s.wrapping_add(1u128 << 64));
            v.push(s.wrapping_add(1u128 << 100));
        }
    }
    if T::BITS >= 64 {
        for &s in thin(&occurring, 3).iter() {
            v.push(s.saturating_add(1u128 << 32).min(tmax));
            v.push(s.saturating_add(1u128 << 33).min(tmax));
        }
    }
    v.sort_unstable();
    v.dedup();
    v.into_iter().filter(|&x| x <= tmax).map(T::from_u128).collect()
}

#[derive(Clone)]
pub struct SweepOpts {
    pub dense_limit: usize,
    pub sym_cap: usize,
    pub unchecked: bool,
    pub class: String,
    /// also observe len/is_empty/n_levels/sigma
    pub shape: bool,
    /// up to this length every position (get) and every occurring symbol is visited at least once
    pub linear_limit: usize,
}

impl Default for SweepOpts {
    fn default() -> Self {
        SweepOpts { dense_limit: 8193, sym_cap: 40, unchecked: false, class: String::new(), shape: true, linear_limit: 1 << 21 }
    }
}

/// Full sweep of one tree. Returns nothing; every disagreement is recorded in ctx.
pub fn sweep_tree<X: Tree>(ctx: &mut Ctx, t: &X, r: &RefSeq<X::T>, o: &SweepOpts) {
    let n = r.len();
    let cl = o.class.as_str();
    let max = r.max();
    if o.shape {
        ctx.obs("len", cl, 0, 0, 0, Exp::Is(n), || t.len_());
        ctx.obs("is_empty", cl, 0, 0, 0, Exp::Is(n == 0), || t.is_empty_());
        if let Some(m) = max {
            if !X::HUFF {
                let bl = bitlen(m.to_u128()) as usize;
                let lv = if X::QUAD { (bl + 1) / 2 } else { bl };
                ctx.obs("n_levels", cl, 0, 0, 0, if lv == 0 { Exp::OneOf(0, 1) } else { Exp::Is(lv) }, || t.n_levels_());
            } else {
                ctx.total("n_levels", cl, 0, 0, 0, || t.n_levels_());
            }
        } else {
            ctx.obs("n_levels", cl, 0, 0, 0, Exp::Is(0), || t.n_levels_());
        }
        if X::QUAD && !X::HUFF {
            ctx.obs("sigma", cl, 0, 0, 0, Exp::Is(Some(max)), || t.sigma_());
        }
    }
    let pos = positions(n, o.dense_limit);
    for &i in &pos {
        let want = r.seq.get(i).copied();
        ctx.obs("get", cl, 0, i as u64, 0, Exp::Is(want), || t.get_(i));
        if o.unchecked && i < n {
            ctx.obs("get_unchecked", cl, 0, i as u64, 0, Exp::Is(r.seq[i]), || unsafe { t.get_unchecked_(i) });
        }
    }
    if n > o.dense_limit && n <= o.linear_limit {
        // linear passes: every position once, every occurring symbol with a handful of arguments
        for i in 0..n {
            ctx.obs("get", cl, 0, i as u64, 0, Exp::Is(Some(r.seq[i])), || t.get_(i));
        }
    }
    if r.occ.len() > o.sym_cap && n <= o.linear_limit {
        for (&c, occ) in r.occ.iter() {
            let cu = c.to_u128();
            let cnt = occ.len();
            for i in [n / 2, n] {
                ctx.obs("rank", cl, cu, i as u64, 0, Exp::Is(Some(r.rank(c, i))), || t.rank_(c, i));
            }
            for k in [0, cnt - 1, cnt] {
                ctx.obs("select", cl, cu, k as u64, 0, Exp::Is(r.select(c, k)), || t.select_(c, k));
            }
        }
    }
    let syms = symbols(r, o.sym_cap);
    for &c in &syms {
        let cu = c.to_u128();
        let present = r.count(c) > 0;
        let in_alphabet = if X::HUFF { present } else { max.map_or(false, |m| c <= m) };
        for &i in &pos {
            let exp = || {
                if n == 0 {
                    Exp::OneOf(None, Some(0))
                } else if i > n || !in_alphabet {
                    Exp::Is(None)
                } else {
                    Exp::Is(Some(r.rank(c, i)))
                }
            };
            ctx.obs("rank", cl, cu, i as u64, 0, exp(), || t.rank_(c, i));
            if X::QUAD {
                ctx.obs("rank_prefetch", cl, cu, i as u64, 0, exp(), || t.rank_prefetch_(c, i).unwrap());
            }
            if o.unchecked && n > 0 && i <= n && in_alphabet {
                ctx.obs("rank_unchecked", cl, cu, i as u64, 0, Exp::Is(r.rank(c, i)), || unsafe { t.rank_unchecked_(c, i) });
                if X::QUAD {
                    ctx.obs("rank_prefetch_unchecked", cl, cu, i as u64, 0, Exp::Is(r.rank(c, i)), || unsafe {
                        t.rank_prefetch_unchecked_(c, i).unwrap()
                    });
                }
            }
        }
        let cnt = r.count(c);
        for &k in &occ_indices(cnt, o.dense_limit) {
            let want = r.select(c, k);
            ctx.obs("select", cl, cu, k as u64, 0, Exp::Is(want), || t.select_(c, k));
            if o.unchecked {
                if let Some(p) = want {
                    ctx.obs("select_unchecked", cl, cu, k as u64, 0, Exp::Is(p), || unsafe { t.select_unchecked_(c, k) });
                }
            }
        }
    }
}

/// Vacuity counters computed from the input only.
pub fn note_seq_shape<T: Elem>(ctx: &mut Ctx, r: &RefSeq<T>, quad: bool) {
    let n = r.len();
    if let Some(m) = r.max() {
        let bl = bitlen(m.to_u128()) as usize;
        let lv = if quad { (bl + 1) / 2 } else { bl }.max(1);
        if lv >= 2 {
            ctx.count("cases_with_2+_levels");
        }
        if lv >= 3 {
            ctx.count("cases_with_3+_levels");
        }
        ctx.maxi("max_levels", lv as u64);
    }
    if n > 4096 {
        ctx.count("cases_with_2+_superblocks");
    }
    if n > 2048 * 2 {
        ctx.count("cases_with_2+_prefetch_samples");
    }
    if r.occ.values().any(|v| v.len() > 8192) {
        ctx.count("cases_with_symbol_over_8192_occurrences");
    }
    if r.occ.len() == 1 {
        ctx.count("cases_with_one_distinct_symbol");
    }
    if n == 0 {
        ctx.count("empty_cases");
    }
    ctx.maxi("max_len", n as u64);
    ctx.maxi("max_distinct_symbols", r.occ.len() as u64);
}
