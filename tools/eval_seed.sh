#!/bin/bash
# usage: eval_seed.sh <lane> <seed-name> <tier> <property>...
# Runs the registered check(s) against a scratch copy of /repo with the seeded change applied
# (cargo `paths` override; own target/output dir per lane), records the outcome in seeded/<name>/meta.json.
set -u
lane=$1; name=$2; tier=$3; shift 3
ROOT=${VERIF_ROOT:-/verif}   # which revision of the machinery to run (default: the live one)
copy=/tmp/evalrepo-$lane; scratch=/tmp/evalscratch-$lane
rm -rf $copy; mkdir -p $copy $scratch
rsync -a --exclude target --exclude .git /repo/ $copy/
if [[ "$name" == unfix:* ]]; then
  (cd $copy && patch -p1 -s < /verif/mutants/unfix-${name#unfix:}.diff) || { echo "$name: cannot un-apply"; exit 2; }
  meta=""
else
  (cd $copy && patch -p1 -s < /verif/seeded/$name/patch.diff) || { echo "$name: patch does not apply"; exit 2; }
  meta=/verif/seeded/$name/meta.json
fi
for p in "$@"; do
  out=$(cd $ROOT && QWT_REPO=$copy QWT_SCRATCH=$scratch ./check $p $tier 2>$scratch/stderr-$p.log); rc=$?
  line=$(echo "$out" | grep -m1 '^VIOLATION' || true)
  detail=$(grep -m1 '^  ' $scratch/stderr-$p.log | cut -c1-300)
  echo "$name $p $tier rc=$rc $line :: $detail"
  if [ -n "$meta" ] && [ "$ROOT" = /verif ]; then
    python3 - "$meta" "$p" "$tier" "$rc" "$line" "$detail" <<'PY'
import json,sys
m,p,t,rc,line,detail=sys.argv[1:]
d=json.load(open(m)); d.setdefault("detected_by",{})[f"{p} {t}"]={"exit":int(rc),"violation_line":line,"first_detail":detail.strip()}
json.dump(d,open(m,"w"),indent=1)
PY
  fi
done
rm -rf $copy $scratch/replays $scratch/evidence
