#!/usr/bin/env python3
"""Rewrites the detection table of DESIGN.md (§9) from seeded/MATRIX.tsv and copies the outcome of every
seeded change into its meta.json."""
import csv, json, os, re
rows = list(csv.DictReader(open("/verif/seeded/MATRIX.tsv"), delimiter="\t"))
blind = {}
blind_counts = []
for fn, label in [("MATRIX-blind.tsv", "round-2 changes against revision 6f8271e"), ("MATRIX-blind3.tsv", "round-3 changes against revision d9cebbd"), ("MATRIX-blind4.tsv", "round-4 changes against revision 26dbf04"), ("MATRIX-blind5.tsv", "round-5 changes against revision d7008d8"), ("MATRIX-blind6.tsv", "round-6 changes against revision 7a2fd51")]:
    if os.path.exists("/verif/seeded/" + fn):
        rs = list(csv.DictReader(open("/verif/seeded/" + fn), delimiter="\t"))
        for r in rs:
            blind[(r["change"], r["property"])] = r["exit"]
        blind_counts.append(f"{label}: {sum(1 for r in rs if r['exit'] == '1')} of {len(rs)}")
out = ["| change | what it is | property | blind | quick | first report |", "|---|---|---|---|---|---|"]
subj = {}
import subprocess
for l in subprocess.run(["git", "-C", "/repo", "log", "--format=%h %s", "--grep", "^fix:"], stdout=subprocess.PIPE, text=True).stdout.splitlines():
    sha, s = l.split(" ", 1)
    subj["unfix:" + sha] = "reverse of `" + s[:70] + "`"
det = 0
for r in rows:
    name = r["change"]
    what = subj.get(name, "")
    if not what and os.path.exists(f"/verif/seeded/{name}/meta.json"):
        m = json.load(open(f"/verif/seeded/{name}/meta.json"))
        what = re.sub(r"[=\-]{3,}", " ", m["needs_to_manifest"])
        what = re.sub(r"(?i)^\s*change\s*\d+\s*(\(C\d+\))?\s*[-:\u2013\u2014]*\s*", "", what.strip())
        what = re.sub(r"\s+", " ", what)
        what = re.split(r"(?i) files? ?/ ?functions? changed| changed:| where:| what:", what)[0][:130]
    first = r["first violation"].split("::")[-1].strip()[:150].replace("|", "/")
    ok = r["exit"] == "1"
    det += ok
    bl = blind.get((name, r["property"]))
    bl = "" if bl is None else ("VIOLATION" if bl == "1" else "exit " + bl)
    out.append(f"| {name} | {what.replace('|','/')} | {r['property']} | {bl} | {'VIOLATION' if ok else 'exit ' + r['exit']} | {first} |")
out.append("")
out.append(f"{det} of {len(rows)} (change, property) pairs are reported by the quick tier of the current machinery; "
           f"blind (the machinery as it was before the changes of that round were looked at) - " + "; ".join(blind_counts) + ".")
if os.path.exists("/verif/seeded/MATRIX-extra.tsv"):
    out.append("")
    out.append("Changes the quick check of their own property does not report, and where they are reported instead:")
    out.append("")
    out.append("| change | reported by | tier | first report |")
    out.append("|---|---|---|---|")
    for r in csv.DictReader(open("/verif/seeded/MATRIX-extra.tsv"), delimiter="\t"):
        out.append(f"| {r['change']} | {r['property']} | {r['tier']} | {r['first violation'].replace('|','/')} |")
s = open("/verif/DESIGN.md").read()
a = s.index("<!-- MATRIX-BEGIN -->") + len("<!-- MATRIX-BEGIN -->")
b = s.index("<!-- MATRIX-END -->")
s = s[:a] + "\n" + "\n".join(out) + "\n" + s[b:]
open("/verif/DESIGN.md", "w").write(s)
print(f"{det}/{len(rows)} detected")
