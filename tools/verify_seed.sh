#!/bin/bash
# usage: verify_seed.sh <property id> <k> <agent worktree> [offset]   (stored as seeded/<id>-<k+offset>)
# Re-checks an independently produced seeded change in a scratch worktree of /repo (outside /repo and /verif):
#   suite passes with the change; demo fails with the change; demo passes without it.
# On success stores it as /verif/seeded/<id>-<k>/{patch.diff,demo.rs,meta.json}.
set -u
id=$1; k=$2; src=$3; off=${4:-0}; kk=$((k+off))
W=/tmp/vseed-wt${LANE:-}
export CARGO_NET_OFFLINE=true CARGO_TARGET_DIR=/tmp/vseed-target${LANE:-}
if [ ! -d $W ]; then git -C /repo worktree add --detach $W HEAD >/dev/null 2>&1 || exit 2; fi
cd $W && git checkout -q --detach $(git -C /repo rev-parse HEAD) && git checkout -- . && git clean -fdq
rm -rf tests; 
git apply $src/OUT/patch_$k.diff || { echo "$id-$k: patch does not apply"; exit 1; }
suite=$(cargo test --workspace --no-fail-fast --offline 2>&1 | grep -E "^test result" | awk '{p+=$4; f+=$6} END {print p" passed "f" failed"}')
mkdir -p tests && cp $src/OUT/demo_$k.rs tests/demo.rs
cargo test --offline --test demo >/tmp/vseed-demo-with${LANE:-}.log 2>&1; with=$?
git checkout -- src Cargo.toml
cargo test --offline --test demo >/tmp/vseed-demo-without${LANE:-}.log 2>&1; without=$?
rm -rf tests
echo "$id-$kk: suite_with_change=[$suite] demo_with_change_rc=$with demo_without_rc=$without"
if [[ "$suite" == *" 0 failed" && $with -ne 0 && $without -eq 0 ]]; then
  d=/verif/seeded/$id-$kk; mkdir -p $d
  cp $src/OUT/patch_$k.diff $d/patch.diff; cp $src/OUT/demo_$k.rs $d/demo.rs
  python3 - "$id" "$k" "$src" "$suite" "$d" <<'PY'
import json,sys
pid,k,src,suite,d=sys.argv[1:]
meta=open(f"{src}/OUT/meta_{k}.txt").read()
json.dump({"property":pid,"source":"independent sub-agent given only the property text and a scratch worktree" + (" (second round: asked for less obvious locations)" if "wt2" in src else " (third round: three changes per property, less obvious locations)" if "wt3" in src else " (fourth round: as the third, plus a list of the kinds of change earlier rounds had produced, to be avoided)" if "wt4" in src else " (fifth round: as the fourth, with a longer list of kinds to avoid)" if "wt5" in src else " (sixth round, short: two changes for each of eight properties that earlier blind rounds missed most often; same prompt as the fifth, 15-minute limit)" if "wt6" in src else ""),
 "needs_to_manifest":meta.strip(),
 "verified":{"suite_with_change":suite,"demo_with_change":"fails","demo_without_change":"passes",
   "how":"tools/verify_seed.sh in a scratch worktree of /repo (cargo test --workspace --no-fail-fast --offline; cargo test --test demo)",
   "base_commit":__import__('subprocess').run(['git','-C','/repo','rev-parse','--short','HEAD'],capture_output=True,text=True).stdout.strip()},
 "detected_by":{}}, open(f"{d}/meta.json","w"), indent=1)
PY
  echo "$id-$kk: KEPT"
else
  echo "$id-$kk: REJECTED"; tail -5 /tmp/vseed-demo-with${LANE:-}.log
fi
