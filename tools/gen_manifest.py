#!/usr/bin/env python3
"""Writes /verif/MANIFEST.json from tools/props.py and the texts below, and validates it."""
import json, os, subprocess, sys
sys.path.insert(0, os.path.dirname(os.path.abspath(__file__)))
from props import PROPS

ALL = [f"C{i:02d}" for i in range(1, 20)]

E1 = ("exploration", "bounded-exhaustive input-space exploration of the real code against a reference model")
TEXT = {
    "C01": (E1[0], "Every sequence of the stated finite families (all sequences up to a length over up to 5 symbols under 6 value maps, "
            "all boundary-straddling shapes) is built with the real QWaveletTree in every alias/element type and every query of the "
            "complete argument alphabet (incl. arguments that wrap around in a scaled unit) is compared with a Vec reference, on the value as built "
            "and on copies of it (deserialized; clone_from into values that held something else): a coverage statement for the bounded space, which contains the "
            "smallest member of every defect family the unit tests miss.", "§4 C01",
            "bounded-exhaustive enumeration of inputs x configurations x query arguments on the real code vs. reference model"),
    "C02": (E1[0], "All sequences / frequency profiles of the stated bounded families AND every tie order the two hash maps can produce "
            "(exhaustive DFS over the choice points exposed by the qwt_verif hook) are constructed with the real HuffQWaveletTree and "
            "swept completely against a Vec reference.", "§4 C02",
            "bounded-exhaustive enumeration of inputs + exhaustive exploration of environment choices (hash-map tie orders) on the real code"),
    "C03": (E1[0], "Same as C01/C02 for WT and HWT, including values above 2^32/2^64, symbols above max(S) in select, all binary code "
            "shapes up to the bounds and every tie order.", "§4 C03",
            "bounded-exhaustive enumeration of inputs + exhaustive exploration of hash-map tie orders on the real code"),
    "C05": (E1[0], "Every quaternary sequence of the bounded families (all sequences up to length L, all boundary-straddling shapes) is "
            "indexed by the real RSQVector256/512 through all three construction paths and every query of the full argument alphabet "
            "is compared with a Vec<u8> reference, also on copies (deserialized, clone_from) and for every block-level composition up to a bound.", "§4 C05",
            "bounded-exhaustive enumeration of inputs x configurations x query arguments on the real code vs. reference model"),
    "C06": (E1[0], "Every bit vector of the bounded families is indexed by the real RSNarrow and RSWide and every rank/select/get/total "
            "is compared with a Vec<bool> reference - on values from every construction route and on copies of them (deserialized, clone_from into other values), plus all word- and line-level compositions up to a bound; a dedicated "
            "family places the m-th one / zero (where a select sample is taken) at every small distance from the end.", "§4 C06",
            "bounded-exhaustive enumeration of inputs x query arguments on the real code vs. reference model"),
    "C07": (E1[0], "Every dense/threshold/sparse group sequence up to g groups (and partial last groups), plus all short bit vectors, is "
            "built into the real DArray<false/true> by every constructor (groups evenly spread, packed at the start, packed at the end with a hole) "
            "and all select/iterator answers are compared with a Vec<bool> reference, also on copies (deserialized, clone_from).", "§4 C07",
            "bounded-exhaustive enumeration of group-shape histories x configurations on the real code vs. reference model"),
    "C08": ("model_checking", "Explicit-state model checking of the real BitVectorMut: every history up to the stated depth from 30 start "
            "states is executed on the implementation next to a Vec<bool>, every reachable state (hidden counters and padding included "
            "in the state key) is observed completely - copy operations (round trip, conversion, clone_from) are actions too - and counterexamples are replayed before being reported.", "§4 C08",
            "explicit-state BFS (stateright) over operation histories of the real code, lock-step reference model"),
    "C12": ("model_checking", "All call histories over {next, next_back, len} up to length n+3 on every tree iterator, all forward "
            "histories incl. calls after exhaustion on the vector iterators, and every overridable iterator method (nth, fold, try_fold, count, "
            "last, nth_back, rfold, try_rfold and the adaptors built on them) after every prefix of next()/next_back() calls on the concrete "
            "iterator types, re-executed on the real iterators against a VecDeque / slice.", "§4 C12",
            "exhaustive enumeration of iterator call histories on the real code (history = state), lock-step reference"),
    "C13": ("model_checking", "Explicit-state model checking of the real QVectorBuilder over push/extend histories with all integer types, plus "
            "bounded-exhaustive collect for every integer type and the iterator-operation histories of C12 on the quad vector iterators.", "§4 C13",
            "explicit-state BFS (stateright) over builder histories of the real code + bounded-exhaustive inputs"),
    "C09": (E1[0], "For every tree of a bounded family built to stress the prefetch estimates, rank_prefetch is compared with rank on every "
            "position and a symbol alphabet (on the tree as built and on its deserialized copy; element types up to u128), in three (thorough: four) builds, and the digests of all answers are compared between the "
            "builds with and without the prefetch feature; faults are caught by the child-process monitor.", "§4 C09",
            "bounded-exhaustive differential exploration (rank_prefetch vs rank; feature on vs off) on the real code"),
    "C10": (E1[0], "Every unchecked method is compared with its checked twin on every precondition-satisfying argument of the bounded "
            "input zoo, in the optimized build and in the build with debug assertions and overflow checks; a checked method that answers None "
            "or panics where the precondition holds while the unchecked one returns a value is a disagreement.", "§4 C10",
            "bounded-exhaustive differential exploration (unchecked vs checked) in two build profiles"),
    "C11": (E1[0], "Every value of the bounded zoo makes the bincode round trip; equality, byte identity and the digest of the complete "
            "query sweep are compared - for the value before it has answered any query and again after it has answered all of them, through "
            "every entry point of bincode (slice, reader, one-byte reader, writer, size).", "§4 C11",
            "bounded-exhaustive round-trip exploration on the real code (differential oracle)"),
    "C19": (E1[0], "All construction paths, clones and clone_from copies, all ordered pairs of distinct short inputs and all element widths are compared "
            "differentially over the bounded zoo.", "§4 C19",
            "bounded-exhaustive differential exploration of construction paths / copies / element widths"),
    "C04": ("fault_enumeration", "Every safe public method is called in every state of a zoo that contains the states constructors never build "
            "(Default, empty, deserialized) with every argument of a boundary alphabet, in both build profiles, under monitors that turn "
            "panics, aborts, signals and sanitizer reports into failing executions.", "§4 C04",
            "bounded-exhaustive enumeration of states x methods x arguments under fault monitors (panic trap, signal journal, UB checks, ASan)"),
    "C14": (E1[0], "Every point of a grid of lengths (incl. 2^k+1, just after a capacity doubling), alphabet sizes, shapes, types and "
            "construction paths (incl. iterators with unknown / loose upper / loose lower size hints) is built under a counting allocator and the retained bytes are compared with the stated bound.", "§4 C14",
            "bounded-exhaustive grid exploration with an allocation monitor on the real code"),
    "C15": (E1[0], "Every profile x scale x arrangement of a grid (and pairs built one after the other on one thread) is built under a counting allocator; "
            "the level data itself (sizes of the levels read from the serde representation) is bounded exactly by n*(H0+2) resp. n*(H0+1) and by "
            "the plain tree's, and the retained bits by the same plus the stated overheads.", "§4 C15",
            "bounded-exhaustive grid exploration with an allocation monitor on the real code"),
    "C16": (E1[0], "For every type implementing SpaceUsage and every grid point, space_usage_byte() is compared with the bytes actually "
            "kept alive (counting allocator + size_of_val); the scaled variants are compared exactly.", "§4 C16",
            "bounded-exhaustive grid exploration with an allocation monitor on the real code"),
    "C17": (E1[0], "The contracts of the word-level primitives are checked on exhaustively enumerated factor spaces (all low-popcount "
            "words, all byte-alphabet words, the whole lookup table, all shifts of all element types with tagged keys), in both "
            "build profiles.", "§4 C17",
            "exhaustive enumeration of decomposed input factors on the real code vs. naive reference"),
    "C18": ("model_checking", "Sequential query histories are explored exhaustively to a depth on the real structures with the memory they own "
            "under observation (one reachable state, history-independent answers), and all interleavings of small query batches are "
            "explored with a controlled scheduler; Send/Sync is a compile-time obligation.", "§4 C18",
            "explicit-state exploration of query histories + exhaustive schedule exploration (shuttle DFS at query granularity, trap-flag/fork preemption points at instruction granularity) on the real code; compile-time auto-trait assertions"),
}

NOTE = {
    "C01": "Trusted: reference model (Vec + occurrence lists), rustc/std, the child-process runner. Bounds: see evidence.coverage.bounds; lengths near 2^43 not reachable. The thorough tier repeats the sweep under AddressSanitizer.",
    "C02": "Trusted: reference model, the hook's permutation code (add-only, off by default), minimum_redundancy (used only to label code shapes). Known finding KF2 (codes > 32 bits).",
    "C03": "Trusted: reference model, hook permutation code. Known finding KF2 (binary codes > 32 bits).",
    "C08": "Trusted: Vec<bool> reference, stateright's BFS. Known finding KF1 (BitVectorMut::get_bits off by one, pinned by the repository's own test). Depth bounds in the evidence.",
    "C04": "Thorough tier adds a Miri interpretation of a miniature of the sweep (mini.rs). Trusted: the allow-list of documented panics (matched on the documented condition, not the message), the signal journal, std's unsafe-precondition checks / ASan for out-of-bounds accesses that do not fault. utils::* free functions are C17's subject.",
    "C14": "Trusted: counting allocator; constants C=2048 bytes/level, C0=512, +1% calibrated with head-room on the current tree. n large enough for the factor to dominate: >= 2^16.",
    "C15": "Trusted: counting allocator; H0 computed by the harness; the level sizes are the field `lens` of the tree's serde representation (if a refactoring renames it the exact check is skipped and counted, the heap-based one remains); table allowance 10*(m+1)+40*distinct+4096 bytes.",
    "C16": "Trusted: counting allocator. Tolerance 2% + 256 bytes per component + 512 (the property's 'few percent plus a constant per component').",
    "C17": "Trusted: naive bit-scan / stable-sort references. Not all 2^64 (2^128) words are enumerated; see evidence.coverage.bounds for what is exhaustive.",
    "C18": "Trusted: shuttle's DFS scheduler, the arena allocator, the trap-flag/fork preemption explorer (sequentially consistent interleavings, one preemption, point cap; each triple on the shared instance, on a never-queried clone and on a never-queried deserialized copy). For subjects whose queries never write to the memory they own (arena digest) finer interleavings are covered by commutation of read-only steps.",
    "C09": "Trusted: the explorer's digest; rank itself is validated by C01/C02. Prefetch intrinsics have no architectural effect, so only panics, faults and answer changes are observable. Known finding KF2 does not arise below 17 levels.",
    "C10": "Trusted: the reference model decides which arguments satisfy the precondition. Known finding KF1 (BitVectorMut::get_bits None at index+len==len while get_bits_unchecked answers).",
    "C11": "Trusted: bincode; PartialEq of the types (also exercised by C19).",
    "C19": "Trusted: the digest. Position-list constructors are compared on vectors ending with a one (a position list cannot express trailing zeros).",
    "C12": "Trusted: VecDeque reference. Double-ended histories are exhaustive for sequences up to length 4; longer inputs only for the forward iterators.",
    "C13": "Trusted: Vec<u8> reference (v mod 4 in two's complement), stateright's BFS.",
    "C05": "Trusted: reference model (Vec<u8>), runner. Lengths near 2^43 (44-bit counters) not reachable. Thorough tier also under AddressSanitizer.",
    "C06": "Trusted: reference model (Vec<bool>), runner. Thorough tier also under AddressSanitizer.",
    "C07": "Trusted: reference model (Vec<bool>), runner. Position-list constructors are compared on the vector that ends at the last one. Thorough tier also under AddressSanitizer.",
}


def main():
    hooks_commits = subprocess.run(["git", "-C", "/repo", "log", "--format=%h", "--grep", "^verif hook"],
                                   stdout=subprocess.PIPE, text=True).stdout.split()
    checks = []
    for pid in ALL:
        if pid not in PROPS or pid not in TEXT:
            continue
        cat, text, ref, tech = TEXT[pid]
        checks.append({
            "property_id": pid,
            "quick_cmd": f"./check {pid} quick",
            "thorough_cmd": f"./check {pid} thorough",
            "evidence_file": f"/verif/evidence/{pid}.json",
            "replay_cmd_template": f"./check {pid} --replay {{path}}",
            "engine": PROPS[pid]["bin"],
            "level_claimed": {"category": cat, "text": text, "design_ref": ref},
            "level_note": NOTE[pid],
            "technique": tech,
        })
    claimed = {c["property_id"] for c in checks}
    na = [{"property_id": p, "reason": "check not built yet in this revision of /verif (planned, see DESIGN.md §4); not claimed"}
          for p in ALL if p not in claimed]
    man = {
        "version": 1,
        "setup_cmd": "./setup.sh",
        "hooks": {
            "guard": "qwt_verif",
            "enable": "RUSTFLAGS=--cfg qwt_verif (set in /verif/mc/.cargo/config.toml; the harness depends on /repo by path)",
            "baseline_off_cmd": "cd /repo && cargo test --workspace --no-fail-fast --offline",
            "source_commits": hooks_commits,
            "add_only": True,
        },
        "engines": [
            {"name": "mc_trees", "path": "/verif/mc/src/bin/mc_trees.rs", "serves_properties": ["C01", "C02", "C03"],
             "kind_free_text": "E1 bounded-exhaustive input-space explorer + E3 tie-order choice explorer for the wavelet trees"},
            {"name": "mc_hist", "path": "/verif/mc/src/bin/mc_hist.rs", "serves_properties": ["C08", "C12", "C13"],
             "kind_free_text": "E2 history explorers: stateright BFS over BitVectorMut / QVectorBuilder histories, exhaustive iterator call histories"},
            {"name": "mc_diff", "path": "/verif/mc/src/bin/mc_diff.rs", "serves_properties": ["C09", "C10", "C11", "C19"],
             "kind_free_text": "E1 differential explorers: prefetch vs plain rank and feature on/off digests, unchecked vs checked, bincode round trip, construction paths / clones / widths"},
            {"name": "mc_safety", "path": "/verif/mc/src/bin/mc_safety.rs", "serves_properties": ["C04"],
             "kind_free_text": "state zoo x method x argument sweep under panic / signal / UB-check / ASan monitors"},
            {"name": "mc_space", "path": "/verif/mc/src/bin/mc_space.rs", "serves_properties": ["C14", "C15", "C16"],
             "kind_free_text": "grid explorer with a counting global allocator"},
            {"name": "mc_words", "path": "/verif/mc/src/bin/mc_words.rs", "serves_properties": ["C17"],
             "kind_free_text": "exhaustive factor enumeration for the word-level primitives"},
            {"name": "mc_conc", "path": "/verif/mc/src/bin/mc_conc.rs", "serves_properties": ["C18"],
             "kind_free_text": "E2 query-history explorer with arena-allocated subjects + E4 shuttle DFS schedule explorer + free-running stress; autotraits.rs holds the Send/Sync assertions"},
            {"name": "mc_vectors", "path": "/verif/mc/src/bin/mc_vectors.rs", "serves_properties": ["C05", "C06", "C07"],
             "kind_free_text": "E1 bounded-exhaustive input-space explorer for RSQVector, RSNarrow/RSWide and DArray"},
        ],
        "checks": checks,
        "not_applicable": na,
        "notes": "Every check rebuilds the harness (path dependency on /repo) before running; exit 2 = machinery problem, never a verdict. "
                 "known_findings.json lists recorded and repaired defects.",
    }
    with open("/verif/MANIFEST.json", "w") as f:
        json.dump(man, f, indent=1)
    try:
        import jsonschema
        jsonschema.validate(man, json.load(open("/root/.vp/MANIFEST.schema.json")))
        print("MANIFEST.json valid;", len(checks), "checks,", len(na), "not claimed")
    except ImportError:
        print("jsonschema not importable: wrote MANIFEST.json without validation")


if __name__ == "__main__":
    main()
