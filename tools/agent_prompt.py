#!/usr/bin/env python3
"""Prints the prompt handed to an independent sub-agent that seeds a property-breaking change.
usage: agent_prompt.py <property id> <worktree dir> [count] (only the property text goes in; nothing of /verif)
With count=3 (second round) the prompt additionally asks for less obvious locations."""
import json, sys
pid, wt = sys.argv[1], sys.argv[2]
count = int(sys.argv[3]) if len(sys.argv) > 3 else 2
# a fourth argument "novel" (round 4) additionally names the kinds of change earlier rounds already produced
novel = len(sys.argv) > 4 and sys.argv[4] == "novel"
NUM = {2: 'TWO', 3: 'THREE'}[count]
KS = '(1, 2)' if count == 2 else '(1, 2, 3)'
EXTRA = '' if count == 2 else '''     Avoid the most obvious candidates (an off-by-one in a sampling constant, simply deleting a validity check): be
     creative about WHERE the bug lives - construction code, counter packing, sentinel handling, a rarely taken branch,
     conversion / collect paths, Clone / PartialEq / Default / serde attributes, size computations, iterator state,
     interaction between two types - and about WHAT triggers it (a particular history, a particular alphabet or length
     class, a particular build profile, a particular element type).\n'''
if novel:
    EXTRA += '''     Earlier rounds of this exercise already produced the plainer kinds of change: off-by-one at block / superblock /
     sample boundaries, dropped or weakened validity checks, truncating integer conversions, `#[serde(skip)]` on a cached
     field, thread-local or lazily filled caches, overridden iterator methods (nth, fold), mishandled size hints, bound
     checks rewritten in another unit that overflow, hand-written Clone impls whose clone_from forgets a field, fixed-size
     stack buffers sized for 64-bit symbols, custom serde formats with colliding escape values, debug-only assertions that
     are wrong in a corner, process-wide statics or try_lock fallbacks in queries. Look for kinds of bug that are NOT on
     that list.\n'''
for l in open('/verif/properties.jsonl'):
    p = json.loads(l)
    if p['id'] == pid:
        break
else:
    sys.exit('no such property')
print(f"""You are helping to evaluate a verification effort for the Rust crate `qwt` (rossanoventurini/qwt: succinct data
structures — quad and binary wavelet trees, plain and Huffman-shaped; rank/select bit vectors and quad vectors; DArray).
You have your own scratch git worktree of the repository at {wt} (a detached checkout). Work ONLY inside {wt}.
Never touch /repo or /verif, never read anything under /verif, and do not commit anything. The machine is offline:
always run cargo with `CARGO_NET_OFFLINE=true` and `--offline`; no crates can be downloaded.

Here is a semantic property the crate is supposed to satisfy:

  Title: {p['title']}
  Statement: {p['statement']}
  Quantified over: {p['quantifier']['text']}

Your task: produce {NUM} different, realistic changes to the crate's source (under {wt}/src) such that, for each change
taken alone:
  1. the crate still compiles and its whole existing test suite still passes
     (`cd {wt} && CARGO_NET_OFFLINE=true cargo test --workspace --no-fail-fast --offline` — unit tests AND doc tests);
  2. the property above is violated by the changed crate;
  3. the violation needs something specific to manifest — a particular multi-step sequence of operations, an unusual
     input shape or size (a boundary of the internal layout, a rare distribution, a particular alphabet), a particular
     argument, two cooperating sites that each look fine alone, a particular build configuration or interleaving —
     NOT something that ordinary use or a casual smoke test would expose at once. Think of the kind of bug a tired
     maintainer could plausibly introduce in a refactoring or 'optimisation' (off-by-one on a block/superblock/sample
     boundary, wrong counter in one branch, a cache or shortcut that is only wrong in a corner, a stale field, a
     validation that is slightly too weak or too strong, a size computation that rounds the wrong way ...).
     The changes must use different mechanisms and touch different code paths.
{EXTRA}  4. you provide a demonstration: a small Rust integration test file (using only the crate's public API and the
     dependencies the crate already has) that FAILS with your change applied and PASSES on the unchanged worktree.

Procedure for each change k in {KS}:
  - read the relevant source first; design the change; apply it in {wt}/src;
  - run the full test suite as in (1) and make sure everything passes (if not, pick another change);
  - write the demonstration as {wt}/tests/demo_{pid}_k.rs and run it:
       `cd {wt} && CARGO_NET_OFFLINE=true cargo test --offline --test demo_{pid}_k`  -> must FAIL with the change;
  - save the change:  `mkdir -p {wt}/OUT && cd {wt} && git diff -- src Cargo.toml > OUT/patch_k.diff`
    (the patch must contain only the source change, not the demonstration), and copy the demonstration to OUT/demo_k.rs;
  - undo the change (`git checkout -- src Cargo.toml`), re-run the demonstration -> must PASS on the unchanged tree;
  - write OUT/meta_k.txt: which files/functions you changed, why it breaks the property, and exactly what is needed
    for the violation to manifest (input, sizes, arguments, sequence, build profile).
Keep `cargo` builds inside the worktree (default target dir {wt}/target). Do not leave the source modified at the end
(the worktree must be clean except for OUT/ and tests/demo_*.rs). Do not weaken, delete or edit existing tests.

Finish with a short report: for each of the changes one paragraph (what, where, what triggers it), and confirm the
three runs you did (suite passes with change; demo fails with change; demo passes without).""")
