#!/usr/bin/env python3-vt
"""Validates MANIFEST.json and every evidence file against the given schemas."""
import json, glob, sys, jsonschema
ok = True
def v(path, schema):
    global ok
    try:
        jsonschema.validate(json.load(open(path)), json.load(open(schema)))
        print("valid  ", path)
    except Exception as e:
        ok = False
        print("INVALID", path, str(e)[:300])
v("/verif/MANIFEST.json", "/root/.vp/MANIFEST.schema.json")
for p in sorted(glob.glob("/verif/evidence/*.json")):
    v(p, "/root/.vp/EVIDENCE.schema.json")
man = json.load(open("/verif/MANIFEST.json"))
ids = {c["property_id"] for c in man["checks"]} | {n["property_id"] for n in man.get("not_applicable", [])}
want = {json.loads(l)["id"] for l in open("/verif/properties.jsonl")}
if ids != want:
    ok = False
    print("MANIFEST does not cover", sorted(want - ids), "extra", sorted(ids - want))
sys.exit(0 if ok else 1)
