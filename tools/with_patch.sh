#!/bin/bash
# usage: with_patch.sh <patch file | unfix:<sha>> -- <command...>
# applies the change to /repo's working tree, runs the command, always restores the tree.
set -u
spec=$1; shift; [ "$1" = "--" ] && shift
cd /repo || exit 2
if ! git diff --quiet; then echo "with_patch: /repo working tree is dirty" >&2; exit 2; fi
case "$spec" in
  unfix:*) git show "${spec#unfix:}" -- src | git apply -R || { echo "cannot un-apply $spec" >&2; exit 2; } ;;
  *) git apply "$spec" || { echo "cannot apply $spec" >&2; exit 2; } ;;
esac
cd - >/dev/null
"$@"; rc=$?
git -C /repo checkout -- . ; git -C /repo clean -fdq src 2>/dev/null
exit $rc
