#!/usr/bin/env python3
"""(name-filter is a regular expression; results are merged into MATRIX.tsv.)
Runs every seeded change (seeded/*) and every un-fix (mutants/unfix-*.diff) against the quick check of the
properties it is supposed to break, on scratch copies of /repo (tools/eval_seed.sh), in parallel lanes.
Writes /verif/seeded/MATRIX.tsv. usage: run_matrix.py [lanes] [tier] [name-filter]"""
import json, os, re, subprocess, sys, glob, concurrent.futures, threading

lanes = int(sys.argv[1]) if len(sys.argv) > 1 else 4
tier = sys.argv[2] if len(sys.argv) > 2 else "quick"
flt = sys.argv[3] if len(sys.argv) > 3 else ""
OUT = os.environ.get("MATRIX_OUT", "/verif/seeded/MATRIX.tsv")
jobs = []
for d in sorted(glob.glob("/verif/seeded/C*-*")):
    name = os.path.basename(d)
    jobs.append((name, [name.split("-")[0]]))
kf = json.load(open("/verif/known_findings.json"))
byfix = {}
for line in kf["fixed"]:
    m = re.match(r"fixed: property=(C\d+) (\w+) ", line)
    byfix.setdefault(m.group(2), []).append(m.group(1))
for sha, props in byfix.items():
    if os.path.exists(f"/verif/mutants/unfix-{sha}.diff"):
        jobs.append((f"unfix:{sha}", sorted(set(props))))
jobs = [j for j in jobs if re.search(flt, j[0])]
free = list(range(lanes))
lock = threading.Lock()
rows = []

def run(job):
    name, props = job
    with lock:
        lane = free.pop()
    try:
        p = subprocess.run(["/verif/tools/eval_seed.sh", f"M{lane}", name, tier] + props, stdout=subprocess.PIPE, stderr=subprocess.STDOUT, text=True)
        out = []
        for l in p.stdout.splitlines():
            m = re.match(r"(\S+) (C\d+) (\w+) rc=(\d+) (.*)", l)
            if m:
                out.append((m.group(1), m.group(2), m.group(4), m.group(5)[:220]))
            elif "cannot" in l or "not apply" in l:
                out.append((name, ",".join(props), "-", l[:200]))
        return out
    finally:
        with lock:
            free.append(lane)

with concurrent.futures.ThreadPoolExecutor(max_workers=lanes) as ex:
    for res in ex.map(run, jobs):
        for r in res:
            rows.append(r)
            print("\t".join(r), flush=True)
# merge with the rows of earlier (partial) runs: the newest result of a (change, property) pair wins
old = {}
if os.path.exists(OUT):
    for l in open(OUT).read().splitlines()[1:]:
        c = l.split("\t")
        if len(c) >= 4:
            old[(c[0], c[1])] = tuple(c[:4])
for r in rows:
    old[(r[0], r[1])] = r
with open(OUT, "w") as f:
    f.write("change\tproperty\texit\tfirst violation\n")
    for k in sorted(old):
        f.write("\t".join(old[k]) + "\n")
det = sum(1 for r in rows if r[2] == "1")
print(f"{det}/{len(rows)} (change, property) pairs detected")
