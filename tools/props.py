"""Per-property configuration of /verif/check: which explorer binary runs in which build
configurations, and how the raw results become an evidence file."""

CHK = {"profile": "chk", "prefetch": True}
FAST = {"profile": "fast", "prefetch": True}
CHK_NOPF = {"profile": "chk", "prefetch": False}
FAST_NOPF = {"profile": "fast", "prefetch": False}
ASAN = {"profile": "fast", "prefetch": True, "asan": True}


def step(bin_, cfg, **kw):
    d = {"bin": bin_, "cfg": cfg}
    d.update(kw)
    return d


def _sum(results, key):
    return sum(int(r.get(key, 0) or 0) for r in results)


def _merge_counters(results):
    c, m = {}, {}
    for r in results:
        for k, v in (r.get("counters") or {}).items():
            c[k] = c.get(k, 0) + v
        for k, v in (r.get("maxima") or {}).items():
            m[k] = max(m.get(k, 0), v)
    return c, m


def exploration_evidence(rule, assumptions, exhaustive_note, level="exploration"):
    def f(pid, tier, results, seed):
        c, m = _merge_counters(results)
        samples = []
        for r in results:
            samples += r.get("samples", [])[:2]
        cov = {
            "evaluations": _sum(results, "evals"),
            # distinct non-trivial inputs: counted by content hash inside the explorer; the same inputs are
            # explored in every build configuration, so the largest single configuration is reported
            "distinct_nontrivial": max([int(r.get("nontrivial_cases", 0)) for r in results] or [0]),
            "rule": rule,
            "samples": samples[:4] or ["(no case ran)"],
            "cases_enumerated": _sum(results, "n_cases_enumerated"),
            "cases_run": _sum(results, "cases_run"),
            "distinct_answers_seen": max([int(r.get("distinct_answers_sum", 0)) for r in results] or [0]),
            "vacuity_counters": c,
            "maxima": m,
            "child_process_crashes": _sum(results, "crashes"),
            "exhaustive": all(r.get("cases_run") == r.get("n_cases_enumerated") for r in results) and bool(results),
            "bounds": exhaustive_note,
        }
        return {"level": level, "coverage": cov, "assumptions": assumptions}
    return f


def mc_evidence(rule, assumptions, bounds):
    """explicit-state results: the explorer binaries report states / transitions themselves"""
    def f(pid, tier, results, seed):
        c, m = _merge_counters(results)
        samples = []
        for r in results:
            samples += r.get("samples", [])[:3]
        states = c.get("states", 0)
        trans = c.get("transitions", 0)
        cov = {
            "states": states,
            "transitions": trans,
            # every transition executes the real method next to the reference model
            "traces_validated_against_impl": c.get("traces_validated", trans),
            "samples": samples[:5] or ["(no case ran)"],
            "evaluations": _sum(results, "evals"),
            "distinct_nontrivial": max([int(r.get("nontrivial_cases", 0)) for r in results] or [0]),
            "rule": rule,
            "vacuity_counters": c,
            "maxima": m,
            "exhaustive": all(r.get("cases_run") == r.get("n_cases_enumerated") for r in results) and bool(results) and c.get("caps_hit", 0) == 0,
            "bounds": bounds,
            "child_process_crashes": _sum(results, "crashes"),
        }
        return {"level": "model_checking", "coverage": cov, "assumptions": assumptions}
    return f


def need(counter_names, min_cases=1, answers=True):
    def f(results):
        c, _ = _merge_counters(results)
        for n in counter_names:
            if c.get(n, 0) < min_cases:
                return f"counter {n} = {c.get(n, 0)}"
        for r in results:
            if r.get("evals", 0) < 1000:
                return f"only {r.get('evals')} observations in {r.get('profile')}"
            if answers and r.get("distinct_answers_sum", 0) < 3:
                return "fewer than 3 distinct answers observed"
        return None
    return f


TRUST = [
    "the reference models in /verif/mc/src/refm.rs (plain vectors, naive loops)",
    "rustc/std; the child-process runner and its crash journal",
]

PROPS = {}

PROPS["C01"] = {
    "bin": "mc_trees",
    "quick": [step("mc_trees", CHK)],
    "thorough": [step("mc_trees", CHK), step("mc_trees", FAST), step("mc_trees", ASAN)],
    "evidence": exploration_evidence(
        "bounded-exhaustive enumeration: every sequence of TINY(k,L) x value map x element type x alias, plus the "
        "BOUNDARY shape family; each case builds the real QWaveletTree and compares len/sigma/n_levels and every "
        "get/rank/rank_prefetch/select over the query alphabets (all positions 0..=n+1, occurring/absent/out-of-range "
        "symbols, all occurrence indices 0..=count+1, usize::MAX) with a Vec-based reference. A case is non-trivial when its "
        "sequence is non-empty; distinct = distinct (type, sequence content) by hash.",
        TRUST,
        "quick: TINY(3,6)+TINY(4,4) x 6 maps x 6 element types x 4 aliases, BOUNDARY lengths <= 8193; thorough: TINY(4,7), "
        "TINY(5,6), BOUNDARY up to 2^20+1, both build profiles. Lengths near 2^43 are out of reach (memory). Every long input and a quarter of the tiny ones are swept again on copies of the structure - a deserialized one and clone_from() into values that held something else (Default, a longer input with a larger maximum, a shorter one with a smaller maximum); counter derived_states_swept; when the input is empty the Default::default() value is swept against the empty reference too; position / occurrence alphabets include the wrap-around arguments 2^63, 2^63+n-1, 2^62+n-1, 2^56+n-1, 2^55+n-1."),
    "vacuity": need(["cases_with_3+_levels", "cases_with_2+_superblocks", "empty_cases", "cases_with_one_distinct_symbol"]),
}

PROPS["C02"] = {
    "bin": "mc_trees",
    "quick": [step("mc_trees", CHK)],
    "thorough": [step("mc_trees", CHK), step("mc_trees", FAST)],
    "evidence": exploration_evidence(
        "bounded-exhaustive enumeration of sequences (TINY), of frequency profiles (all multisets HUFF(A,W) in 4 arrangements "
        "and 3 symbol assignments, CHAIN(d) deep codes, BOUNDARY shapes) and - through the qwt_verif hook - of EVERY order in "
        "which the builder can enumerate tied symbols (all permutations inside every class of equal frequency / equal code "
        "length, deduplicated by the serialized tree); each constructed HuffQWaveletTree gets the full query sweep against a "
        "Vec-based reference (absent symbols must give None). Non-trivial = non-empty sequence; distinct by content hash.",
        TRUST + ["the hook src/verif_hooks.rs only reorders tied items (any such order is one the hash maps can produce)"],
        "quick: TINY(4,5), HUFF(A<=10, W={1,2,3,5,9,20}) (full cross for A<=5), CHAIN(2..12) for all aliases and CHAIN(14), CHAIN(16) (32-bit codewords, n = 1.09 million) for one, all tie orders for profiles with "
        "<= 6 symbols (cap 5040 constructions per profile, bounded family above it - reported in vacuity_counters); thorough: "
        "A<=13 with weight 100, CHAIN up to 17 (34-bit codes: known finding), ties for <= 7 symbols."),
    "vacuity": need(["tie_scripts_explored", "distinct_tie_outcomes_swept", "cases_with_levels_of_different_length",
                     "cases_with_one_distinct_symbol", "empty_cases"]),
}

PROPS["C03"] = {
    "bin": "mc_trees",
    "quick": [step("mc_trees", CHK)],
    "thorough": [step("mc_trees", CHK), step("mc_trees", FAST)],
    "evidence": exploration_evidence(
        "as C01/C02 for the binary trees: TINY x value maps (values >= 2^32 and >= 2^64 included) x 6 element types for WT, "
        "Huffman maps for HWT, BOUNDARY shapes, HUFF profiles + Fibonacci CHAIN(d) for deep binary codes, and every tie order "
        "of the HWT builder through the hook; full get/rank/select sweep incl. symbols above max(S) (aliasing) against a "
        "Vec-based reference. Non-trivial = non-empty sequence; distinct by content hash.",
        TRUST + ["the hook src/verif_hooks.rs only reorders tied items"],
        "quick: TINY(3,6)+TINY(4,4) for WT, TINY(4,5) for HWT, HUFF(A<=10), CHAIN(2..20), ties for <= 6 symbols; "
        "thorough: larger TINY, A<=13, CHAIN up to 33 (33-bit codes: known finding), BOUNDARY up to 2^20+1. Every long input and a quarter of the tiny ones are swept again on copies of the structure - a deserialized one and clone_from() into values that held something else (Default, a longer input with a larger maximum, a shorter one with a smaller maximum); counter derived_states_swept; when the input is empty the Default::default() value is swept against the empty reference too; position / occurrence alphabets include the wrap-around arguments 2^63, 2^63+n-1, 2^62+n-1, 2^56+n-1, 2^55+n-1."),
    "vacuity": need(["tie_scripts_explored", "cases_with_3+_levels", "cases_with_one_distinct_symbol", "empty_cases"]),
}

PROPS["C05"] = {
    "bin": "mc_vectors",
    "quick": [step("mc_vectors", CHK)],
    "thorough": [step("mc_vectors", CHK), step("mc_vectors", FAST), step("mc_vectors", ASAN)],
    "evidence": exploration_evidence(
        "bounded-exhaustive enumeration of quaternary sequences: all of TINYQ(L) and the BOUNDARY shape family (lengths around "
        "multiples of 128/256/512/2048/4096 and of the 8192-occurrence select sample, sigma 1..4, constant / periodic / runs / "
        "rare-symbol / block patterns) x RSQVector256/512 x three construction paths; every get, rank (symbols 0..7 and 255), "
        "select, occs, occs_smaller over the full argument alphabets is compared with a Vec<u8> reference. Non-trivial = "
        "non-empty; distinct by content hash.",
        TRUST,
        "quick: TINYQ(10), lengths <= 24577 (all positions up to 2049, boundary positions above); thorough: TINYQ(11), lengths up "
        "to 2^20+1, all positions up to 8193, both build profiles. Every long input and a quarter of the tiny ones are swept again on copies of the structure - a deserialized one and clone_from() into values that held something else (Default, a longer input with a larger maximum, a shorter one with a smaller maximum); counter derived_states_swept; when the input is empty the Default::default() value is swept against the empty reference too; position / occurrence alphabets include the wrap-around arguments 2^63, 2^63+n-1, 2^62+n-1, 2^56+n-1, 2^55+n-1. Coarse-tiny family: every sequence of up to 6 (thorough 8) blocks of 256 / 512 symbols over the four constant fills, with and without a partial block, and of 7..11 (thorough ..17) blocks over two fills; one-hot and prefix fillings of 17 blocks of 512. Construction paths: new, From<QVector>, collect, and a quad vector assembled by pushes / extend / pushes / extend."),
    "vacuity": need(["cases_crossing_two_select_samples", "cases_with_2+_superblocks_512", "cases_with_absent_symbol", "empty_cases"]),
}

PROPS["C06"] = {
    "bin": "mc_vectors",
    "quick": [step("mc_vectors", CHK)],
    "thorough": [step("mc_vectors", CHK), step("mc_vectors", FAST), step("mc_vectors", ASAN)],
    "evidence": exploration_evidence(
        "bounded-exhaustive enumeration of bit vectors: all vectors of TINYBIT(L) and the structured family (lengths around "
        "multiples of 64/512/4096/32768, densities all-0/all-1/alternating/runs/one-or-zero-per-p for p around 1024 and 8192, "
        "single one/zero) x RSNarrow/RSWide x {new, From}; every get, rank1, rank0, select1, select0, n_ones, n_zeros (bv_len) is "
        "compared with a Vec<bool> reference. Non-trivial = non-empty; distinct by content hash.",
        TRUST,
        "quick: TINYBIT(18), lengths <= 65537; thorough: TINYBIT(22), lengths up to 2^21+1, both build profiles. The bit vector under the structure is obtained by every route the API offers (bools, sorted positions, repeated unsorted positions, a BitVectorMut history). Every long input and a quarter of the tiny ones are swept again on copies of the structure - a deserialized one and clone_from() into values that held something else (Default, a longer input with a larger maximum, a shorter one with a smaller maximum); counter derived_states_swept; when the input is empty the Default::default() value is swept against the empty reference too; position / occurrence alphabets include the wrap-around arguments 2^63, 2^63+n-1, 2^62+n-1, 2^56+n-1, 2^55+n-1. PrefixRun family: the m*S-th one / zero (S = 1024, 8192; m = 1, 2) at distance 0,1,2,62..65 from the end for lengths m*S + {64,65,127,128,512,576}. Coarse family: every sequence of up to 8 (thorough 9) 64-bit words and of up to 6 (8) 512-bit lines over the fills {zeros, ones, first bit only, last bit only}, with 0 / 1 trailing bits."),
    "vacuity": need(["cases_over_8192_ones", "cases_over_8192_zeros", "cases_over_32768_bits", "all_zero_cases", "all_one_cases", "empty_cases"]),
}

PROPS["C07"] = {
    "bin": "mc_vectors",
    "quick": [step("mc_vectors", CHK)],
    "thorough": [step("mc_vectors", CHK), step("mc_vectors", FAST), step("mc_vectors", ASAN)],
    "evidence": exploration_evidence(
        "bounded-exhaustive enumeration of group shapes: every sequence of up to g groups of 1024 ones, each dense / at the "
        "65535-65536-65537 threshold / sparse, in every order, with partial last groups of several sizes and spans, the same "
        "shapes complemented (zeros), plus all bit vectors of TINYBIT(L) and the structured C06 family; DArray<false/true> built "
        "from a BitVector, from bools and from positions; every select1/select0 (all k in 0..=count+1, usize::MAX), len, counts, "
        "get, iter/ones/zeros and *_with_pos from group boundaries is compared with a Vec<bool> reference.",
        TRUST,
        "quick: g <= 4 over {dense, threshold, sparse} (+ g <= 2 over 5 kinds), TINYBIT(15); thorough: g <= 6 (+ g <= 3), TINYBIT(18), both profiles. Every long input and a quarter of the tiny ones are swept again on copies of the structure - a deserialized one and clone_from() into values that held something else (Default, a longer input with a larger maximum, a shorter one with a smaller maximum); counter derived_states_swept; when the input is empty the Default::default() value is swept against the empty reference too; position / occurrence alphabets include the wrap-around arguments 2^63, 2^63+n-1, 2^62+n-1, 2^56+n-1, 2^55+n-1. The short-shape family has 7 kinds: the 5 evenly spread ones plus span-65535 groups packed at the start (last element alone at offset 65535) and packed at the end (last 32 elements in the final 33 bits, one hole). Boundary-gap lists: all position lists of up to 4 ones whose consecutive gaps are drawn from {1, 65534, 65535, 65536, 70000}, from 3 start offsets."),
    "vacuity": need(["cases_with_sparse_then_dense_group_of_ones", "cases_with_sparse_then_dense_group_of_zeros",
                     "cases_with_threshold_group_of_ones", "cases_with_dense_then_sparse_group_of_ones", "empty_cases"]),
}

PROPS["C08"] = {
    "bin": "mc_hist",
    "quick": [step("mc_hist", CHK)],
    "thorough": [step("mc_hist", CHK), step("mc_hist", FAST)],
    "evidence": mc_evidence(
        "explicit-state BFS (stateright) over operation histories of the real BitVectorMut run in lock step with a Vec<bool>: "
        "state = (reference bits, real value incl. its ones counter and every word of every line, depth); ~50 actions per state "
        "(push, append_bits, extend_with_zeros, set, set_bits, extend with bools / with positions incl. a non-monotone list); "
        "the always-property observes EVERY state completely: len, counts, every bit, get_bits for every 1<=len<=64 at every "
        "start (all starts when n<=140, word/line boundaries and the tail otherwise), every word incl. zero padding, iter/ones/"
        "zeros, *_with_pos from 15 start positions incl. past the end, conversion to BitVector and back, clone, equality with "
        "the vector collected from bools / from positions, inequality with a one-bit / one-length neighbour. Counterexample "
        "paths are re-executed outside the explorer before they are reported.",
        TRUST + ["stateright 0.31 (BFS, fingerprints)"],
        "quick: depth 4 from the empty vector (split by first action), depth 2 from 29 other start states (with_capacity, "
        "all-zeros / all-ones / alternating of length 0,1,62..65,510..513); thorough: depth 5 resp. 3, both build profiles. "
        "Mutator arguments stay inside the documented preconditions (documented panics are C04's subject). Copy actions (at most one per history; they open a lineage of their own in the state key, so a copy is never merged with the value it copies): bincode round trip, conversion to BitVector and back, clone_from into an empty vector / 3 zeros / 2000 ones with spare capacity."),
    "vacuity": lambda results: None if _merge_counters(results)[0].get("states", 0) > 1000 else "fewer than 1000 states",
}

PROPS["C12"] = {
    "bin": "mc_hist",
    "quick": [step("mc_hist", CHK)],
    "thorough": [step("mc_hist", CHK), step("mc_hist", FAST)],
    "evidence": mc_evidence(
        "exhaustive enumeration of iterator call histories with re-execution (the iterators are not Clone): for every tree alias "
        "x {iter(), (&t).into_iter(), into_iter()} x every sequence of TINY(3,4): all 2^(n+k) histories over {next, next_back} "
        "of length n+k (k=2 quick, 3 thorough), with len() observed (twice) after every step, against a VecDeque - yielded "
        "value, remaining length, None forever after exhaustion with len 0; for BitVectorIter, BitVectorIntoIter, position "
        "iterators, QVectorIterator (borrowing/consuming, also via RSQVector) and the DArray iterators: next() n+4 times with "
        "len() where implemented, over all short inputs and lengths around 64/512 resp. 128/256. states = iterator "
        "configurations visited, transitions = calls executed.",
        TRUST,
        "sequences up to length 6 (thorough 7) for the double-ended histories (all interleavings, also on Default::default() trees), TINYBIT(7)/TINYQ(4) + boundary lengths; next/nth/size_hint histories on inputs of 130..1025 elements "
        "for the forward iterators. Iterator operations (mc/src/iterops.rs): 16 forward (count, last, fold, max, eq, find x4, position, all, nth x3 incl. usize::MAX, skip, step_by) and 9 double-ended (rfold, rfind, nth_back incl. usize::MAX, rev().nth, rposition) operations on the concrete iterator types after every prefix of a next() and b next_back() calls (a <= n+1, b <= 2) on all short inputs, and parameterised ones (arguments 0..513, usize::MAX) after prefixes 0,1,3,63..65,127..129,200,255..257,511..513,n-1,n,n+1 on inputs of 130..1025 elements incl. aperiodic ones; each followed by len()/next()/len() (counter iterator_operations)."),
    "vacuity": lambda results: None if _merge_counters(results)[0].get("histories", 0) > 1000 else "fewer than 1000 histories",
}

PROPS["C13"] = {
    "bin": "mc_hist",
    "quick": [step("mc_hist", CHK)],
    "thorough": [step("mc_hist", CHK), step("mc_hist", FAST)],
    "evidence": mc_evidence(
        "explicit-state BFS (stateright) over push/extend histories of the real QVectorBuilder next to a Vec<u8>: actions = "
        "push(v) for 8 byte values incl. 4, 7, 252, 255 and extend with 7 lists (0, 1, 4, 64, 128, 130, 257 values incl. "
        "negative ones, MIN and MAX) typed as each of the 12 primitive integer types; start states pre-filled to 28 lengths "
        "around 32/64/96/128/192/256/384/512; every state is built and observed completely (len, is_empty, get for every "
        "i <= n+1, the three iterators, equality with from_iter of the same values, inequality with a one-symbol neighbour). "
        "Plus the E1 family: collect of every integer type over all of TINYQ(L) with values offset by multiples of 4 and negated.",
        TRUST + ["stateright 0.31"],
        "quick: depth 5 from empty, 4 from the other starts, TINYQ(6); thorough: depth 6 / 5, TINYQ(7), both profiles. Iteration: next() histories and the iterator operations of C12 (mc/src/iterops.rs: count, last, fold, max, eq, find, position, all, nth, skip, step_by after every prefix) on QVector / RSQVector iterators over TINYQ(4) (thorough 5) and periodic + aperiodic inputs of 127..1025 symbols; get at the wrap-around arguments 2^63, 2^63+n-1, 2^62+n-1, 2^56+n-1, 2^55+n-1. Copy actions of the builder model (one per history, own lineage): clone_from into an empty builder / one holding 3 / 700 symbols. Start states are made by pushes, by with_capacity + pushes, by collect (FromIterator for QVectorBuilder) and by one extend."),
    "vacuity": lambda results: None if _merge_counters(results)[0].get("states", 0) > 1000 else "fewer than 1000 states",
}


def c09_post(pid, tier, results):
    """feature axis: the per-case digests of all answers must be identical in the builds with and
    without the crate's `prefetch` feature (same profile)."""
    import subprocess, os
    viol, notes = [], []
    by = {}
    for r in results:
        if r.get("digests") is not None:
            by[(r["_step"]["cfg"]["profile"], r["_step"]["cfg"]["prefetch"])] = r
    for prof in ("chk", "fast"):
        a, b = by.get((prof, True)), by.get((prof, False))
        if not a or not b:
            continue
        da, db = dict(map(tuple, a["digests"])), dict(map(tuple, b["digests"]))
        if set(da) != set(db):
            notes.append(f"C09: the two feature builds ran different case sets ({len(da)} vs {len(db)})")
            continue
        a["counters"]["feature_digests_compared"] = a["counters"].get("feature_digests_compared", 0) + len(da)
        for idx in sorted(da):
            if da[idx] != db[idx]:
                viol.append({"property": pid, "ty": "quad wavelet tree", "method": "all queries", "class": "feature-prefetch",
                             "query": f"case {idx}: digest of every answer", "expected": "identical with and without the prefetch feature",
                             "observed": f"digests differ ({da[idx]} vs {db[idx]})", "case_index": idx, "case": {"index": idx},
                             "profile": prof, "no_replay": True})
                if len(viol) >= 3:
                    break
    return viol, notes


PROPS["C09"] = {
    "bin": "mc_diff",
    "quick": [step("mc_diff", CHK, args=["--digest"]), step("mc_diff", CHK_NOPF, args=["--digest"]), step("mc_diff", FAST)],
    "thorough": [step("mc_diff", CHK, args=["--digest"]), step("mc_diff", CHK_NOPF, args=["--digest"]),
                 step("mc_diff", FAST, args=["--digest"]), step("mc_diff", FAST_NOPF, args=["--digest"])],
    "post": c09_post,
    "evidence": exploration_evidence(
        "differential, bounded-exhaustive: for every tree of the family (all eight quad types; 3+ levels; lengths of 1..10 "
        "prefetch sampling periods of 2048 incl. exact multiples; periodic / runs / constant / two-runs / blocks / rare-symbol "
        "shapes; Huffman profiles whose levels end just below, at and above a multiple of 2048; deep and bushy codes) and EVERY "
        "position 0..=n+2 (and usize::MAX) x 12..30 symbols (occurring, absent, out of range): rank_prefetch(c,i) must equal "
        "rank(c,i) and rank_prefetch_unchecked the same on valid arguments, without panic or fault (child-process monitor); "
        "plus a digest of every answer of the complete query sweep per case, compared between the builds with and without the "
        "crate feature `prefetch`. Non-trivial = non-empty sequence.",
        TRUST + ["rank itself is checked against the reference by C01/C02"],
        "quick: lengths <= 20481, builds chk+prefetch / chk without prefetch / fast+prefetch; thorough: lengths <= 65537 and all four builds. Plus all of TINY(3,4) (thorough 5) over u8/u64/u128 with full-width values; every comparison is repeated on the deserialized copy of the tree (all symbols, every 7th position on long inputs); symbols include 2^64+s for occurring s. One- and two-level trees (value map id; alphabets of 2, 3, 4, 16 symbols among the long inputs)."),
    "vacuity": need(["cases_with_3+_levels", "cases_with_2+_prefetch_samples", "feature_digests_compared"]),
}

PROPS["C10"] = {
    "bin": "mc_diff",
    "quick": [step("mc_diff", CHK), step("mc_diff", FAST)],
    "thorough": [step("mc_diff", CHK), step("mc_diff", FAST)],
    "evidence": exploration_evidence(
        "differential, bounded-exhaustive, in BOTH build profiles: for every structure (10 tree aliases x 6 element types, "
        "RSQVector256/512, QVector, RSNarrow, RSWide, DArray<false/true>, BitVector, BitVectorMut) over the shared input zoo "
        "(all short sequences / bit vectors + boundary shapes) and every argument that satisfies the documented precondition "
        "(validity decided by the reference model), each unchecked method - get_unchecked, rank_unchecked, select_unchecked, "
        "rank1/rank0_unchecked, select1/select0_unchecked, occs_unchecked, occs_smaller_unchecked, rank_prefetch_unchecked, "
        "get_bits_unchecked - must return exactly what its checked twin returns (a debug assertion firing on valid input is a "
        "panic and therefore a violation). A checked method that answers None on such arguments while the unchecked one returns a value is reported as a disagreement (class checked-none). Trees are also compared on copies (deserialized; clone_from into trees that held a smaller / a larger alphabet); the bit vectors under RSNarrow / RSWide come from bools, sorted positions and repeated unsorted positions (chosen by content); DArray inputs include the boundary-gap lists (gaps from {1, 65534, 65535, 65536, 70000}). Likewise a checked method that panics there while the unchecked one answers (class checked-panic).",
        TRUST,
        "TINY(3,4) x 2 value maps x all types, Huffman profiles up to 5 symbols, boundary lengths up to 4097 (thorough 24577), "
        "TINYBIT(9), DArray group shapes up to 2 groups; profiles chk (debug assertions + overflow checks) and fast."),
    "vacuity": need(["cases_with_3+_levels", "empty_cases"]),
}

PROPS["C11"] = {
    "bin": "mc_diff",
    "quick": [step("mc_diff", CHK)],
    "thorough": [step("mc_diff", CHK), step("mc_diff", FAST)],
    "evidence": exploration_evidence(
        "bounded-exhaustive: every value of the shared zoo (all serializable types, empty values included) is serialized with "
        "bincode and deserialized; deserialization must succeed, the result must compare equal to the original in both "
        "directions, re-serialize to the identical bytes, and give the identical digest over the complete query sweep of its type. The round trip is made twice: of the value before it has answered any query, and of the same value after the complete sweep (equality and bytes again; the two copies must also equal each other). Every round trip also goes through bincode::deserialize_from (a cursor, and a reader that returns one byte per call), serialize_into and serialized_size; Default::default() values are round-tripped where the input is empty.",
        TRUST + ["bincode 1.3.3"],
        "same zoo as C10; thorough adds longer inputs and the fast profile. Bit patterns include density 1/63, 1/64, 1/65 (count_ones == len/64 with len % 64 != 0) and the boundary-gap lists."),
    "vacuity": need(["round_trips", "empty_cases"]),
}

PROPS["C19"] = {
    "bin": "mc_diff",
    "quick": [step("mc_diff", CHK)],
    "thorough": [step("mc_diff", CHK), step("mc_diff", FAST)],
    "evidence": exploration_evidence(
        "differential, bounded-exhaustive: for every input of the zoo the structure is built by every construction path (trees: "
        "new / From<Vec> / collect; RSQVector: new / From<QVector> / collect; RSNarrow, RSWide, DArray: new / From / collect from "
        "bools / from positions; bit vectors: bools / positions / push) - all paths must give the identical digest over the "
        "complete query sweep and (plain trees, non-Huffman structures) compare ==; clone == original; a one-symbol / one-bit / "
        "one-length neighbour compares !=; ALL ordered pairs of the 121 sequences of TINY(3,4) compare != per tree type; the same "
        "numbers carried in u8/u16/u32/u64/usize/u128 give the identical width-independent digest of every get/rank/select.",
        TRUST,
        "TINY(3,4..5), boundary lengths <= 4097, 121^2 pairs x 10 aliases x 3 element types, width comparison over TINY(3,5) + 3 long inputs. Copies: clone_from(x) into three donors (Default, longer / larger, shorter / smaller) must equal x and answer like it, for every type; bit-level neighbours also with two adjacent bits swapped in the first / middle / last word. Pairs also over the value map (0,1,4,16): sequences that are multiples of 4 of each other."),
    "vacuity": need(["pairs_compared", "empty_cases"]),
}


def c04_post(pid, tier, results):
    """API coverage guard: every safe `pub fn` of the structure modules (and every safe method of the
    public traits) must be named in mc_safety's method list, so new API cannot be skipped silently."""
    import os, re, subprocess
    notes = []
    repo = os.environ.get("QWT_REPO", "/repo")
    names = set()
    for root in ("bitvector", "qvector", "quadwt", "binwt", "darray"):
        for dp, _, files in os.walk(os.path.join(repo, "src", root)):
            if "rs_qvector/rs_qvector" in dp:
                continue  # stale duplicate, not compiled
            for fn in files:
                if fn.endswith(".rs") and fn != "tests.rs":
                    text = open(os.path.join(dp, fn)).read().split("#[cfg(test)]")[0]
                    names |= set(re.findall(r"^\s*pub fn (\w+)", text, re.M))
    lib = open(os.path.join(repo, "src", "lib.rs")).read()
    names |= set(re.findall(r"^\s+fn (\w+)", lib, re.M))
    names -= {"block_predecessor"}  # method of a private type
    step0 = results[0]["_step"]
    import sys
    sys.path.insert(0, os.path.dirname(os.path.dirname(os.path.abspath(__file__))))
    exe = results[0].get("_exe")
    try:
        listed = set(subprocess.run([exe, "--list-methods"], stdout=subprocess.PIPE, text=True, timeout=60).stdout.split())
    except Exception as e:  # noqa
        return [], [f"C04: cannot list the methods of the sweep: {e}"]
    missing = sorted(n for n in names if n not in listed)
    if missing:
        notes.append("C04: safe public functions of /repo/src that the sweep does not call: " + ", ".join(missing))
    results[0].setdefault("counters", {})["public_functions_cross_checked"] = len(names)
    viol = []
    if tier == "thorough":
        v, n = miri_sweep(pid, results)
        viol += v
        notes += n
    return viol, notes


def miri_sweep(pid, results, parts=14):
    """Thorough tier of C04: the miniature sweep (mc/src/bin/mini.rs) interpreted by Miri, cut into `parts`
    processes. Miri is a monitor here, like ASan: the inputs are the enumerated ones; it reports undefined
    behaviour that neither a panic nor a signal would show (uninitialised reads, invalid pointer use)."""
    import os, re, subprocess, concurrent.futures
    mc = os.path.join(os.path.dirname(os.path.dirname(os.path.abspath(__file__))), "mc")
    scratch = os.environ.get("QWT_SCRATCH")
    cmd = ["cargo", "+nightly", "miri", "run", "--target-dir", os.path.join(scratch or mc, "target-miri"), "--bin", "mini"]
    if os.environ.get("QWT_REPO"):
        cmd += ["--config", 'paths=["%s"]' % os.environ["QWT_REPO"]]
    # +popcnt: DArray::select calls _popcnt64 unconditionally (the crate assumes an x86-64 CPU with POPCNT, as every
    # other build of this harness does by running on one); Miri's default target CPU lacks it.
    env = dict(os.environ, CARGO_NET_OFFLINE="true", CARGO_TERM_COLOR="never",
               RUSTFLAGS="--cfg qwt_verif -C target-feature=+popcnt",
               MIRIFLAGS="-Zmiri-disable-isolation -Zmiri-ignore-leaks")

    def run(k):
        return subprocess.run(cmd + ["--", str(k), str(parts)], cwd=mc, env=env, stdout=subprocess.PIPE, stderr=subprocess.PIPE,
                              text=True, timeout=3000)
    try:
        first = run(0)  # builds; the other parts then start from the finished build
        with concurrent.futures.ThreadPoolExecutor(max_workers=parts) as ex:
            rest = list(ex.map(run, range(1, parts)))
    except subprocess.TimeoutExpired:
        return [], ["C04: the Miri sweep hit its wall cap"]
    viol, notes, calls = [], [], 0
    for k, p in enumerate([first] + rest):
        m = re.search(r"mini: part \d+/\d+: \d+ of \d+ units, (\d+) calls", p.stdout)
        if p.returncode == 0 and m:
            calls += int(m.group(1))
            continue
        err = p.stderr
        ub = re.search(r"error: Undefined Behavior: ([^\n]*)", err)
        if ub:
            where = re.search(r"-->\s*(\S+)", err[ub.start():])
            viol.append({"property": pid, "ty": "all types (Miri)", "method": "safe API", "class": "miri",
                         "query": f"cargo +nightly miri run --bin mini -- {k} {parts}",
                         "expected": "no undefined behaviour", "observed": "ABORT: Miri: " + ub.group(1)[:200] + (" at " + where.group(1) if where else ""),
                         "case_index": k, "case": {"bin": "mini", "part": k, "of": parts}, "profile": "miri", "no_replay": True})
        else:
            notes.append(f"C04: Miri part {k} did not finish (exit {p.returncode}): " + err[-400:].replace("\n", " | "))
    results[0].setdefault("counters", {})["miri_interpreted_calls"] = calls
    results[0]["counters"]["miri_parts"] = parts
    return viol, notes


PROPS["C04"] = {
    "bin": "mc_safety",
    "quick": [step("mc_safety", CHK), step("mc_safety", FAST)],
    "thorough": [step("mc_safety", CHK), step("mc_safety", FAST), step("mc_safety", ASAN)],
    "post": c04_post,
    "evidence": exploration_evidence(
        "bounded-exhaustive cross product: state zoo (Default::default(), every constructor on the empty input, 1 element, "
        "22 sizes straddling 64/128/256/512/2048/4096/8192, all-0 / all-1 / alternating / irregular contents, clones, "
        "BitVector<->BitVectorMut conversions, bincode round trips) x every safe public method of the 9 vector types and of "
        "the 10 tree aliases over 6 element types (60 tree instantiations) x argument alphabet (0,1,2, n-1,n,n+1, 63..65, "
        "255..257, 511..513, 2047..2049, 4095..4097, 2^32, usize::MAX/2, usize::MAX-1, usize::MAX; quad symbols 0..7 and 255; "
        "tree symbols 0,1,m-1..m+2, 2^32, 2^64+k, T::MAX; get_bits lengths 0,1,2,63,64,65,usize::MAX; mutator arguments on "
        "both sides of every documented panic condition). Every call runs under a panic trap inside a journalled child process: "
        "a panic whose documented condition does not hold, SIGSEGV/SIGILL/SIGBUS/SIGABRT (incl. std's unsafe-precondition "
        "checks in the chk build), a watchdog timeout, or Some(..) for arguments that denote nothing is a violation; calls that "
        "may exhaust memory run in a forked grandchild (allocation-failure panic / abort is the permitted outcome). A case is "
        "one (type, state); all are non-trivial.",
        TRUST + ["the allow-list of documented panics is matched on (method, documented condition true for the arguments)"],
        "both build profiles in both tiers (fast = optimized, chk = debug assertions + overflow checks); thorough adds an "
        "AddressSanitizer build of the same sweep and a Miri interpretation of a miniature of it (mc/src/bin/mini.rs: sizes <= 4097 bits / "
        "300 symbols, 46k calls in 14 processes; counters miri_*). Lengths >= 2^43 and real memory exhaustion are not provoked.",
        level="fault_enumeration"),
    "vacuity": need(["documented_panics_observed", "hostile_calls_allocation_failure_abort", "public_functions_cross_checked"], answers=False),
}


PROPS["C14"] = {
    "bin": "mc_space",
    "quick": [step("mc_space", CHK)],
    "thorough": [step("mc_space", CHK), step("mc_space", FAST)],
    "evidence": exploration_evidence(
        "bounded-exhaustive grid with a counting global allocator: n in {0,1,255..257, 2^k-1, 2^k, 2^k+1 (k=10..17, thorough ..20), "
        "3*2^k/2+1} x largest symbol in {0,1,3,4,15,16,255,256,999, 2^32-ish, 2^64-ish} x {periodic, blocks, rare-symbol} x "
        "{QWT256, QWT512, QWT256Pfs, QWT512Pfs, WT} x construction paths {new, From<Vec>, collect, collect from an iterator "
        "without size hint}; RSQVector256/512 and QVector (4 paths), RSWide (new, From, built from the positions of the ones). "
        "Oracle: 8*(live heap bytes + size_of_val) <= (1 + r + 0.01) * B * n * L + 8*(2048*L + 512) with B=2, L=max(1,ceil(bitlen(m)/2)), "
        "r = 1/8 (block 256) or 1/16 (512), +0.01 with prefetch support; B=1, L=bitlen(m), r=0.05 for WT and RSWide. The 2^k+1 "
        "lengths sit just after a capacity doubling. Non-trivial = n > 1000.",
        TRUST + ["the counting #[global_allocator] (requested sizes, not allocator slop)"],
        "quick: n <= 262145; thorough: n <= 2^22+1 and both profiles. The per-level constant (2048 bytes) and the 1% head-room are "
        "calibrated on the current tree (largest case uses 97.7% of its bound). Lengths also at 9/16, 5/8, 3/4, 7/8, 8/9, 15/16 of 2^k (+257); collect paths also from iterators whose size hint is unknown, a loose upper bound (8n+4096), or a loose lower bound (n/2); RSWide / RSNarrow also over bit vectors collected that way. Alphabets of 33 and 65 bits (u64 / u128 element types); a deserialized copy and a clone of every value are measured against the same bound."),
    "vacuity": need(["large_cases"]),
}

PROPS["C15"] = {
    "bin": "mc_space",
    "quick": [step("mc_space", CHK)],
    "thorough": [step("mc_space", CHK), step("mc_space", FAST)],
    "evidence": exploration_evidence(
        "bounded-exhaustive grid with a counting allocator: 16 frequency profiles (uniform over 2,4,5,16,17,200,256 symbols, "
        "geometric and heavy-tail skews, single symbol, CHAIN deep codes) x scales x 3 arrangements (grouped ascending - the "
        "sequence ends in a long run of the heaviest symbol -, grouped descending, round robin) x 2 symbol assignments, drifting "
        "distributions (constant phase then uniform phase and the reverse, n up to 3*65536), large uniform alphabets, x HQWT256/512 "
        "(+Pfs) and HWT. The harness computes H0. Oracle: 8*(heap+size_of_val) <= (1+r+0.01)*n*(H0+2) [HWT: H0+1] + 8*(2048*depth + "
        "tables) with tables = 10*(m+1) + 40*distinct + 4096 bytes, and heap - tables <= 1.01 * heap(plain tree over the same "
        "sequence) + 2048*levels. Non-trivial = n > 1000.",
        TRUST + ["the counting allocator", "minimum_redundancy for the code depth used in the additive term"],
        "quick: n <= 2^18; thorough: n <= 2^21, both profiles. The level data itself is bounded exactly: the level sizes are read from the serde representation (field lens; counter level_data_measured) and 2*sum [HWT: sum] <= n*(H0+2) [H0+1] and <= the plain tree's n*bits*levels, with no additive allowance. Profiles with a frequent symbol of value 2^17+5 / 2^20+1; construction histories (two trees with permuted counts built one after the other on one thread) up to n = 261120. Drifting distributions up to n = 2^19+77; very short sequences (n <= 220) over symbols that are large multiples of 2^16."),
    "vacuity": need(["cases_with_entropy_well_below_log_sigma", "cases_with_one_distinct_symbol"]),
}

PROPS["C16"] = {
    "bin": "mc_space",
    "quick": [step("mc_space", CHK)],
    "thorough": [step("mc_space", CHK), step("mc_space", FAST)],
    "evidence": exploration_evidence(
        "bounded-exhaustive grid with a counting allocator over every public type implementing SpaceUsage: the C14 grid for all "
        "ten tree aliases, RSQVector256/512, QVector, RSWide, RSNarrow, BitVector, BitVectorMut in 7 states (collected, "
        "with_capacity untouched, with_capacity then pushed, grown by push, shrunk, with_zeros, From<BitVector>), DArray<false/"
        "true> over dense / sparse / mixed group shapes and 10 bit patterns. Oracle: |space_usage_byte() - (live heap + "
        "size_of_val)| <= 0.02*heap + 256*components + 512 (+ 8*(m+1) + 40*distinct + 2304 for Huffman tables); KiB/MiB/GiB "
        "equal the byte count divided by 2^10/2^20/2^30 exactly. Non-trivial = n > 1000.",
        TRUST + ["the counting allocator"],
        "quick: n <= 131073 (DArray up to 320000 bits); thorough: n <= 2^20+1, both profiles. Components below 2% of a structure "
        "are inside the tolerance the property grants. Construction paths and lengths as in C14 (hinted iterators, fractions of 2^k); the bytes of a DArray<true> loaded as DArray<false> and the reverse (counter cross_flavour_deserializations). A deserialized copy and a clone of every tree / quad vector are measured too."),
    "vacuity": need(["empty_vectors_with_reserved_capacity", "sparse_darray_cases"]),
}


PROPS["C17"] = {
    "bin": "mc_words",
    "quick": [step("mc_words", CHK), step("mc_words", FAST)],
    "thorough": [step("mc_words", CHK), step("mc_words", FAST)],
    "evidence": exploration_evidence(
        "exhaustive enumeration of the factors of the input space: select_in_word(w,k) for all k < 64 on ALL words of popcount "
        "<= 3 and >= 61, all words whose 8 bytes come from {00,FF,01,80,A5} (every carry pattern of the byte sums), every byte "
        "value at every byte position on 4 backgrounds (the whole in-byte table), all 64x64 runs and rotated runs; "
        "select_in_word_u128 on all pairs of 215 boundary words (empty upper / lower halves included) for all k < 128 with 128 "
        "as not-found; popcnt_wide::<0,1,2,4,8,9> on all slices of length 0..9 over a word alphabet and popcnt_wide::<16,31,32,33,64,65,1000> on constant slices of 0..70 words (incl. saturated byte columns) with one other word at every position; msb exhaustively for u8/u16 "
         "and on all one-/two-bit values and 2^j-1 for u32/u64/usize/u128, exhaustively for i8/i16 and on 0, +-1, +-2^j, 2^j+1, MIN, MAX for i32/i64/isize/i128 (highest set bit of the two's complement); stable_partition_of_4/_of_2 for all six element types "
        "and EVERY shift below the width on all digit sequences of length <= 5 whose elements carry unique low/high tags and "
        "all-ones noise above the digit (result must equal the stable sort by the digit); text_remap on all byte strings of "
        "length <= 5 over {0,1,7,200,255}. Reference: naive bit scans and sort_by_key. Every case is non-trivial.",
        TRUST,
        "select_in_word is NOT checked on all 2^64 words: the claim is exhaustive coverage of the lookup table, of every byte-sum "
        "carry pattern over the byte alphabet, and of all low/high-popcount words (quick: popcount <= 5 / >= 59; thorough: <= 6 / >= 58, 83 M words) plus a 7-value byte "
        "alphabet (5.7 M words), sequences of length 6 and strings of length 7."),
    "vacuity": need(["words", "words128"]),
}


def c18_post(pid, tier, results):
    """type level: the autotraits binary (Send + Sync assertions for every public type) must compile"""
    import os, subprocess
    mc = os.path.join(os.path.dirname(os.path.dirname(os.path.abspath(__file__))), "mc")
    scratch = os.environ.get("QWT_SCRATCH")
    cmd = ["cargo", "build", "--profile", "chk", "--bin", "autotraits", "--target-dir", os.path.join(scratch or mc, "target")]
    if os.environ.get("QWT_REPO"):
        cmd += ["--config", 'paths=["%s"]' % os.environ["QWT_REPO"]]
    p = subprocess.run(cmd, cwd=mc, env=dict(os.environ, CARGO_NET_OFFLINE="true", CARGO_TERM_COLOR="never"),
                       stdout=subprocess.PIPE, stderr=subprocess.STDOUT, text=True)
    if p.returncode == 0:
        results[0].setdefault("counters", {})["send_sync_assertions_compiled"] = 1
        return [], []
    err = [l for l in p.stdout.splitlines() if "error" in l or "Send" in l or "Sync" in l]
    text = " | ".join(err)[:600]
    if "Send" in p.stdout or "Sync" in p.stdout or "cannot be shared between threads" in p.stdout or "cannot be sent between threads" in p.stdout:
        return [{"property": pid, "ty": "public types", "method": "Send + Sync", "class": "autotraits", "query": "fn send_sync<T: Send + Sync>() for every public type",
                 "expected": "compiles", "observed": "ABORT: " + text, "case_index": 0, "case": {"bin": "autotraits"}, "profile": "chk", "no_replay": True}], []
    return [], ["C18: autotraits does not build for a reason unrelated to Send/Sync: " + text]


PROPS["C18"] = {
    "bin": "mc_conc",
    "quick": [step("mc_conc", CHK)],
    "thorough": [step("mc_conc", CHK), step("mc_conc", FAST)],
    "post": c18_post,
    "evidence": mc_evidence(
        "(1) type level: a binary asserting Send + Sync for every public type and borrowing iterator must compile. "
        "(2) explicit-state exploration of sequential query histories: each subject (46 quick / 66 thorough: all ten tree "
        "aliases over 2-4 inputs of 5000-9000 symbols, RSQVector256/512, RSNarrow, RSWide, DArray<false/true>, BitVector over "
        "40000-70000 bits incl. dense/sparse group mixes) is built inside an arena allocator; the query alphabet (up to 90 "
        "queries, derived from the reference model: get / rank / rank_prefetch / select / rank1 / select0 / occs / iterators "
        "with arguments around every block, superblock and sample boundary, the last occurrence before and the first after "
        "each boundary, consecutive indices, invalid and usize::MAX arguments) is explored to depth 2 (thorough 3): after every "
        "step the answer must equal the answer of the same query on a second instance that never saw another query, and the "
        "state (bincode bytes, digest of every byte the structure allocated) is recorded - the reachable state graph must be "
        "one state with |A| self-loops (a changed digest alone is reported in the counters, not as a violation: only answers "
        "and the serialized form decide). (3) schedules: shuttle::check_dfs over 2 threads x 3 queries and 3 threads x 2 "
        "queries (colliding arguments) on the shared structure, every interleaving at query granularity, each thread must "
        "obtain the sequential answers. (4) preemption points at machine-instruction granularity (bound 1): a query runs with the "
        "x86 trap flag set; at every instruction boundary inside the executable the SIGTRAP handler forks, the child runs the "
        "interfering query right there, lets the first query finish and exits with the verdict - after a prefix history of "
        "neighbouring queries (k-1, k, k+1). Full budget (260 / 1200 triples, point cap 12000 / 120000 per subject) for subjects "
        "whose queries write to the arena, one token triple otherwise (read-only steps commute). (5) the same alphabets on 8 "
        "free-running OS threads (a sampling pass, never the sole decider). states = distinct (bytes, arena digest) states + "
        "schedules + preemption points; transitions = queries executed.",
        TRUST + ["shuttle 0.9.3 (cooperative DFS scheduler: preemption only at the yield between queries)",
                 "intra-query preemption is covered by the independence argument: when the arena digest never changes no query "
                 "writes shared memory, so read-only steps commute"],
        "depth 2 over <= 90 queries (thorough: depth 3 over 40), 2x3 and 3x2 thread harnesses, preemption bound 1 with a point "
        "cap (reported in vacuity_counters.caps_hit); sequential consistency only; state kept in statics is visible only through answers. The preemption explorer runs every (prefix, A, B) triple in three modes: on one shared instance (histories accumulate), on a never-queried clone and on a never-queried deserialized copy of a never-queried master (first-use effects); stress rounds after the first use fresh copies too. Subjects include 150k-600k element inputs with a rare symbol / very sparse bits (select ranges of more than 64 superblocks). A fourth mode uses clone_from into a Default value; the sequential histories also run on clones / deserialized / clone_from copies (origin). Subjects deeper than 32 levels (WT<u64>, WT<u128>, QWT256<u128>, QWT512Pfs<u64>). Impurity is detected by the arena digest and by an MMU probe (every query once with the arena read-only: transient writes count; counter queries_with_transient_writes). Interfering queries include one without an answer. A preemption point at which the interfering query does not finish within 3 ms (it blocks on a lock the preempted query holds, or the child was not scheduled) is counted and is no verdict; every following point is probed again."),
    "vacuity": lambda results: None if _merge_counters(results)[0].get("schedules", 0) > 1000 and _merge_counters(results)[0].get("subjects_with_one_reachable_state", 0) > 10 else "too few schedules or subjects",
}
