#!/bin/bash
# MANIFEST.setup_cmd: build every harness binary from files on disk (offline).
set -e
cd "$(dirname "$0")"
export CARGO_NET_OFFLINE=true
exec ./check --build
